"""C03 - composition obeys its law, is closed and type-sound, leaves operands intact.

State   : the transform built so far by a *compose program* (root letter, then up to `depth` compose
          calls with a fresh operand each).  Reference model = the ordered list of operand maps (plain
          numpy matrices for the homogeneous family, an untouched twin instance for TPS / PWA, a column
          selection for WithDims) - the composite is the sequential application of that list.
Worlds  : ("g", 2-D) and ("g", 3-D): generic, well conditioned operands from mc.letters (12 homogeneous
          classes, a TransformChain, WithDims, in 2-D also the two TPS kernels);
          ("m", 2-D): *mild* (near identity) instances of the same classes plus PythonPWA / CachedPWA so
          that every intermediate point of every program stays inside the piecewise-affine domain
          (the reference checks containment itself).
          ("dec", d): roots for the decomposition clause only.
          ("h", d): the state additionally owns ONE live homogeneous-family operand that is composed, re-parametrised
          through its public API (set_target / from_vector_inplace / compose_*_inplace) and composed again
          (see HELD_SCHEDULES) - the only way to see anything remembered on an object between calls.
Scale   : worlds "s:..." re-express the generic payloads at other magnitudes (x 2**-20, 2**-30, 2**20, common offset
          2**20, 20 000 probe points) and add operands that are nearly but not exactly the identity (1e-6, 1e-9) or
          nearly the inverse of the state; a twin program on the unscaled payload gives the scale-equivariance clause
          (same class structure, conjugated matrix).  Every tolerance is relative to the data (see assumptions()).
Refused : calls the tree legitimately refuses (operand of the other dimensionality, non-transform operand, in-place
          operand outside composes_inplace_with) are letters too: they must raise, raise again when retried, leave
          receiver / argument / bystanders unchanged, and the composes that follow on the same live objects obey
          the normal oracles (self loops in the ordinary worlds, explored states in the held-operand world).
Ops     : (method, operand letter, role): method in compose_before / compose_after / _inplace variants;
          role "r": the state is the receiver and the fresh operand the argument, role "a": the fresh
          operand is the receiver and the state the argument (only from level 1 on - at level 0 the roots x
          letters already give every ordered pair).
Oracle  : see DESIGN.md section 3 / C03: (i) map law on probe points, (ii) operands unchanged + result is a
          new object / in-place accepted iff isinstance(arg, receiver.composes_inplace_with), else ValueError
          and receiver unchanged, accepted => same map and (homogeneous operands) the receiver's matrix still
          belongs to its class, (iii) homogeneous x homogeneous => one invertible, non-alignment, *honest*
          Homogeneous instance, (iv) decompose() recomposes.
"""
import pickle

import numpy as np

from mc import letters as L
from mc.core import Check, Failure
from mc.observe import obs_diff, observe

TOL = 1e-9  # relative to the largest coordinate met while evaluating the reference composition
DEC_TOL = 1e-12
HORIZON = 1e-3  # |w| / sum|terms of w| below which a probe point is too close to a projective horizon

HOMOG = list(L.HOMOG_ALL)
METHODS = ("cb", "ca", "cbi", "cai")
MNAME = {"cb": "compose_before", "ca": "compose_after", "cbi": "compose_before_inplace", "cai": "compose_after_inplace"}

# operands whose matrix has an integer dtype (menpo keeps the dtype it is given; the repository's own tests build
# such transforms): a product written back into the receiver's dtype would be truncated
INT_LETTERS = ["Affine-int", "Homogeneous-int", "Similarity-int"]


def int_letter(letter, d):
    mt = _m()["mt"]
    if d == 2:
        h = {"Affine-int": [[2, 1, 3], [0, 1, -2], [0, 0, 1]], "Homogeneous-int": [[1, 2, -1], [3, 1, 2], [0, 0, 1]], "Similarity-int": [[0, -2, 1], [2, 0, 3], [0, 0, 1]]}[letter]
    else:
        h = {
            "Affine-int": [[2, 1, 0, 3], [0, 1, 1, -2], [1, 0, 2, 1], [0, 0, 0, 1]],
            "Homogeneous-int": [[1, 2, 0, -1], [3, 1, 1, 2], [0, 1, 2, 1], [0, 0, 0, 1]],
            "Similarity-int": [[0, -2, 0, 1], [2, 0, 0, 3], [0, 0, 2, -1], [0, 0, 0, 1]],
        }[letter]
    cls = {"Affine-int": mt.Affine, "Homogeneous-int": mt.Homogeneous, "Similarity-int": mt.Similarity}[letter]
    return cls(np.array(h, dtype=np.int64))


# constructor OPTION letters of the alignment classes (every documented option that changes how the class re-fits:
# AlignmentSimilarity(rotation=False), AlignmentSimilarity(allow_mirror=True) and AlignmentRotation(allow_mirror=True),
# the mirror letters fitted to a reflected target so that the option really shows: det < 0; the TPS kernel option is
# the letter TPS-R2LogRRBF) and ORIENTATION-REVERSING operands (negative uniform scale - reversing in 3-D, a half turn
# in 2-D -, a reflection as Similarity and as Affine)
OPTION_LETTERS = ["AlignmentSimilarity-norot", "AlignmentSimilarity-mirror", "AlignmentRotation-mirror"]
REFLECT_LETTERS = ["UniformScale-neg", "Similarity-refl", "Affine-refl"]
EXTRA_LETTERS = OPTION_LETTERS + REFLECT_LETTERS
HOMOG_NATIVE = HOMOG + EXTRA_LETTERS  # fresh letters that may be the receiver of an in-place call


def extra_letter(letter, d, var, seed):
    M = _m()
    mt, PointCloud = M["mt"], M["PointCloud"]
    r = L.rs(seed, "c03-extra", letter, d, var)
    rot = L.rotation_matrix(d, seed, ("c03-extra", letter, var))
    refl = np.eye(d)
    refl[0, 0] = -1.0
    t = 0.5 + r.rand(d)
    if letter == "UniformScale-neg":
        return mt.UniformScale(-(0.6 + r.rand()), d)
    if letter in ("Similarity-refl", "Affine-refl"):
        h = np.eye(d + 1)
        h[:d, d] = t
        if letter == "Similarity-refl":
            h[:d, :d] = (0.6 + r.rand()) * rot.dot(refl)
            return mt.Similarity(h)
        h[:d, :d] = rot.dot(np.diag(0.7 + 0.8 * r.rand(d))).dot(refl) + 0.1 * r.rand(d, d)
        assert np.linalg.det(h[:d, :d]) < 0
        return mt.Affine(h)
    src = PointCloud(L.generic_points(5, d, seed, ("c03-extra-src", letter, var)))
    a = np.eye(d + 1)
    lin = rot.dot(np.diag(0.8 + 0.5 * r.rand(d))) + 0.1 * r.rand(d, d)
    if letter.endswith("-mirror"):
        lin = lin.dot(refl)
    tgt = PointCloud(src.points.dot(lin.T) + t + 0.05 * r.randn(5, d))
    if letter == "AlignmentSimilarity-norot":
        return mt.AlignmentSimilarity(src, tgt, rotation=False)
    if letter == "AlignmentSimilarity-mirror":
        out = mt.AlignmentSimilarity(src, tgt, allow_mirror=True)
    elif letter == "AlignmentRotation-mirror":
        out = mt.AlignmentRotation(src, tgt, allow_mirror=True)
    else:
        raise ValueError(letter)
    assert np.linalg.det(out.h_matrix[:d, :d]) < 0, "the mirror letter is not mirrored"
    return out


FULL = {
    ("g", 2): HOMOG + ["TransformChain", "WithDims", "ThinPlateSplines", "TPS-R2LogRRBF"] + INT_LETTERS + EXTRA_LETTERS,
    ("m", 2): HOMOG + ["TransformChain", "WithDims", "ThinPlateSplines", "PythonPWA", "CachedPWA"],
    ("g", 3): HOMOG + ["TransformChain", "WithDims"] + INT_LETTERS + EXTRA_LETTERS,
}
REDUCED = {
    ("g", 2): ["Homogeneous", "Affine", "AlignmentSimilarity", "Rotation", "NonUniformScale", "AlignmentTranslation", "TransformChain", "ThinPlateSplines"],
    ("m", 2): ["Homogeneous", "Affine", "AlignmentSimilarity", "Rotation", "NonUniformScale", "TransformChain", "PythonPWA", "CachedPWA"],
    ("g", 3): ["Homogeneous", "Affine", "AlignmentSimilarity", "Rotation", "NonUniformScale", "AlignmentTranslation", "TransformChain", "WithDims"],
}
# letters of the decomposition-only roots
DEC_LETTERS = ["Affine", "Affine-negdet", "Affine-equal-sv", "Affine-tie-largest", "Affine-tie-smallest", "Similarity", "AlignmentAffine", "AlignmentSimilarity", "Rotation", "UniformScale", "NonUniformScale", "Translation", "AlignmentRotation", "AlignmentTranslation", "AlignmentUniformScale"]

# alphabet schedule: per level (letter set, roles)
SCHEDULES = {
    "Q": [("full", "r"), ("full", "ra")],
    "B": [("full", "r"), ("reduced", "ra"), ("reduced", "r")],
}


# The 'held operand' world ("h"): besides the transform built so far the state owns ONE live operand (a
# homogeneous-family letter) that is used again and again: composed (as receiver or argument, with the state,
# with a fresh instance of its own class or with a fresh Affine), re-parametrised through its public API
# (set_target, from_vector_inplace, compose_*_inplace) and composed again.  The reference reads the held
# operand's matrix at the time of each call.  Anything computed once and kept on an object (or handed on to
# results) is only observable through such reuse.
# op groups: n = non-in-place compose with the held operand, p = in-place compose whose receiver is the partner,
#            h = in-place compose whose receiver is the held operand, r = set_target / from_vector_inplace
#            x / X = REFUSED calls (small / full set): the held operand composed with an operand of the other
#            dimensionality or with something that is no transform; the refusal must leave every object as it was,
#            be repeatable, and the composes that follow on the same live objects must obey the normal oracles
HELD_SCHEDULES = {
    "H": ["nph", "rhx", "nph"],
    "HT": ["nphrX", "nphrX", "nphrX"],
}
HELD_VAR, DONOR_VAR, REFUSE_VAR = 20, 40, 50
# REFUSED-CALL letters of the ordinary worlds (self loops: the state must be exactly what it was): receiver = the
# state when it is a homogeneous-family transform, argument = an operand of the OTHER dimensionality (every class at
# level 0, the state's own class and Affine later) or a non-transform (in-place variants only, see assumptions())
REFUSE_DIM_REDUCED = ("same", "Affine")
NON_TRANSFORMS = ("ndarray", "None")
PARTNERS = ("cur", "same", "Affine")


# SCALE worlds ("s:..."): the same generic payloads re-expressed at other magnitudes and the operands that are
# nearly - but not - the identity.  Homogeneous-family letters only (TPS has a documented absolute floor
# min_singular_val, PWA a fixed domain: see assumptions()).
#   s:near   operands that differ from the identity by ~1e-6 / ~1e-9 (relative; far above rounding), probes at
#            three magnitudes, and a dynamic letter that is nearly the inverse of the state (result ~ identity)
#   s:1e-6, s:1e-9, s:1e6   every length of the payload (translations, sources, targets, probe points) multiplied
#            by 2**-20, 2**-30, 2**20 (powers of two: scaling is exact in binary floating point); a twin program on
#            the unscaled payload runs alongside and the scale-equivariance clause is checked on every result
#   s:offset   data with a common offset 2**20 (offset / spread ~ 1e6): probe points and alignment sources/targets
#   s:big    a large probe set (20 000 points)
POW = {"s:1e-6": 2.0 ** -20, "s:1e-9": 2.0 ** -30, "s:1e6": 2.0 ** 20}
OFFSET = 2.0 ** 20
BIG_N = 20000
BASE6 = ["Homogeneous", "Affine", "AlignmentSimilarity", "Rotation", "NonUniformScale", "Translation"]
NEAR_CLASSES = ["UniformScale", "NonUniformScale", "Translation", "Rotation", "Similarity", "Affine", "Homogeneous"]
NEAR_LETTERS = ["%s-near%d" % (c, k) for k in (6, 9) for c in NEAR_CLASSES]
NEAR_INVERSE = "Affine-nearinv9"  # (inverse of the state) x (identity + 1e-9 E): the composition is nearly the identity
OFFSET_LETTERS = ["AlignmentSimilarity-offset", "AlignmentTranslation-offset"]
MAG_ROOTS = ["Homogeneous", "Affine", "AlignmentSimilarity", "Translation"]
S_ROOTS = {
    "s:near": BASE6 + NEAR_LETTERS,
    "s:1e-6": MAG_ROOTS,
    "s:1e-9": MAG_ROOTS,
    "s:1e6": MAG_ROOTS,
    "s:offset": ["Affine", "Similarity"] + OFFSET_LETTERS,
    "s:big": ["Affine", "TransformChain"],
}
# operand letters per level (level 0: state is the receiver; level 1: both roles)
S_OPS = {
    "s:near": [BASE6 + NEAR_LETTERS + [NEAR_INVERSE], ["UniformScale-near9", "Translation-near9", "Rotation-near9", "Affine-near6", NEAR_INVERSE]],
    "s:1e-6": [BASE6 + ["AlignmentAffine", "TransformChain"], ["Affine", "AlignmentSimilarity", "Translation"]],
    "s:1e-9": [BASE6 + ["AlignmentAffine", "TransformChain"], ["Affine", "AlignmentSimilarity", "Translation"]],
    "s:1e6": [BASE6 + ["AlignmentAffine", "TransformChain"], ["Affine", "AlignmentSimilarity", "Translation"]],
    "s:offset": [BASE6 + OFFSET_LETTERS + ["UniformScale-near6"], ["Affine", "AlignmentSimilarity-offset", "UniformScale-near6"]],
    "s:big": [BASE6 + ["TransformChain"]],
}
HONEST_TOL = 1e-12
MTOL = 1e-12  # matrix oracle: |result - product| <= MTOL x (product of the |operand matrices|), elementwise
EQTOL = 1e-9


def _rodrigues(axis, ang):
    axis = axis / np.linalg.norm(axis)
    k = np.array([[0, -axis[2], axis[1]], [axis[2], 0, -axis[0]], [-axis[1], axis[0], 0]])
    return np.eye(3) + np.sin(ang) * k + (1 - np.cos(ang)) * k.dot(k)


def near_letter(letter, d, var, seed):
    """an operand that is nearly, but well above rounding not, the identity: deviation ~1e-6 or ~1e-9."""
    mt = _m()["mt"]
    cls, k = letter.split("-near")
    delta = 10.0 ** -int(k)
    r = L.rs(seed, "c03-near", letter, d, var)

    def u(*shape):  # magnitudes in [0.5, 1) x delta with random signs
        return delta * (0.5 + 0.5 * r.rand(*shape)) * np.where(r.rand(*shape) < 0.5, -1.0, 1.0)

    rot = _rot2(float(u())) if d == 2 else _rodrigues(0.3 + r.rand(3), float(u()))
    if cls == "UniformScale":
        return mt.UniformScale(1.0 + float(u()), d)
    if cls == "NonUniformScale":
        return mt.NonUniformScale(1.0 + u(d))
    if cls == "Translation":
        return mt.Translation(u(d))
    if cls == "Rotation":
        return mt.Rotation(rot)
    h = np.eye(d + 1)
    h[:d, d] = u(d)
    if cls == "Similarity":
        h[:d, :d] = (1.0 + float(u())) * rot
        return mt.Similarity(h)
    h[:d, :d] = np.eye(d) + u(d, d)
    if cls == "Affine":
        return mt.Affine(h)
    h[d, :d] = u(d)
    return mt.Homogeneous(h)


def rescaled(g, s):
    """the same transform with every length of its payload multiplied by s (conjugation by the scaling)."""
    M = _m()
    mt, PointCloud = M["mt"], M["PointCloud"]
    if isinstance(g, mt.TransformChain):
        return mt.TransformChain([rescaled(t, s) for t in g.transforms])
    if isinstance(g, M["Alignment"]):
        return type(g)(PointCloud(s * g.source.points), PointCloud(s * g.target.points))
    if isinstance(g, mt.Translation):
        return mt.Translation(s * g.translation_component)
    if isinstance(g, (mt.Rotation, mt.UniformScale, mt.NonUniformScale)):
        return g
    h = np.array(g.h_matrix, dtype=float, copy=True)
    d = h.shape[0] - 1
    h[:d, d] *= s
    h[d, :d] /= s
    return type(g)(h)


def conjugated(h, s):
    h = np.array(h, dtype=float, copy=True)
    d = h.shape[0] - 1
    h[:d, d] *= s
    h[d, :d] /= s
    return h


def offset_letter(letter, d, var, seed):
    """alignment fitted to data with a large common offset (offset / spread ~ 1e6)."""
    M = _m()
    g = generic(letter.split("-")[0], d, var, seed)
    return type(g)(M["PointCloud"](g.source.points + OFFSET), M["PointCloud"](g.target.points + OFFSET))


def scale_world_letter(world, d, letter, var, seed):
    if "-near" in letter and letter != NEAR_INVERSE:
        return near_letter(letter, d, var, seed)
    if letter in OFFSET_LETTERS:
        return offset_letter(letter, d, var, seed)
    g = generic(letter, d, var, seed)
    return rescaled(g, POW[world]) if world in POW else g


class Outside(Exception):
    """the reference composition leaves the domain of a piecewise affine member"""


_M = {}


def _m():
    if not _M:
        import menpo.transform as mt
        from menpo.shape import PointCloud, TriMesh
        from menpo.transform.base.alignment import Alignment
        from menpo.transform.base.composable import ComposableTransform
        from menpo.transform.homogeneous.affine import DiscreteAffine
        from menpo.transform.piecewiseaffine.base import AbstractPWA, CachedPWA, PythonPWA, TriangleContainmentError

        _M.update(
            mt=mt,
            PointCloud=PointCloud,
            TriMesh=TriMesh,
            Alignment=Alignment,
            ComposableTransform=ComposableTransform,
            DiscreteAffine=DiscreteAffine,
            AbstractPWA=AbstractPWA,
            CachedPWA=CachedPWA,
            PythonPWA=PythonPWA,
            TCE=TriangleContainmentError,
        )
    return _M


# ------------------------------------------------------------------------------------------------
# operand letters
# ------------------------------------------------------------------------------------------------
CENTRE = np.array([3.0, 3.0])


def _about_centre(lin, extra_t):
    """h-matrix of x -> lin (x - c) + c + extra_t  (2-D)."""
    h = np.eye(3)
    h[:2, :2] = lin
    h[:2, 2] = CENTRE - lin.dot(CENTRE) + extra_t
    return h


def _rot2(t):
    return np.array([[np.cos(t), -np.sin(t)], [np.sin(t), np.cos(t)]])


def _sgn(r):
    return 1.0 if r.rand() < 0.5 else -1.0


def mild(letter, var, seed):
    """Near-identity 2-D instance: moves no point of [0.5,5.5]^2 by more than ~0.15 per coordinate."""
    M = _m()
    mt, PointCloud, TriMesh = M["mt"], M["PointCloud"], M["TriMesh"]
    r = L.rs(seed, "c03-mild", letter, var)
    th = _sgn(r) * (0.008 + 0.012 * r.rand())  # for maps about the centre
    th0 = _sgn(r) * (0.005 + 0.006 * r.rand())  # for maps about the origin
    s = 1.0 + _sgn(r) * (0.004 + 0.008 * r.rand())
    t = np.array([_sgn(r), _sgn(r)]) * (0.02 + 0.04 * r.rand(2))
    if letter == "Homogeneous":
        lin = s * _rot2(th).dot(np.diag([1.0 + 0.01 * r.rand(), 1.0 - 0.01 * r.rand()]))
        h = _about_centre(lin, t)
        # projective part about the centre: x -> (x - c) / (1 + p.(x - c)) + c
        p = np.array([_sgn(r), _sgn(r)]) * (0.001 + 0.001 * r.rand(2))
        to_c, from_c, pr = np.eye(3), np.eye(3), np.eye(3)
        to_c[:2, 2] = -CENTRE
        from_c[:2, 2] = CENTRE
        pr[2, :2] = p
        return mt.Homogeneous(h.dot(from_c.dot(pr).dot(to_c)))
    if letter == "Affine":
        lin = _rot2(th).dot(np.diag([1.0 + 0.012 * r.rand(), 1.0 - 0.012 * r.rand()])) + 0.01 * (r.rand(2, 2) - 0.5)
        return mt.Affine(_about_centre(lin, t))
    if letter == "Similarity":
        return mt.Similarity(_about_centre(s * _rot2(th), t))
    if letter == "Rotation":
        return mt.Rotation(_rot2(th0))
    if letter == "UniformScale":
        return mt.UniformScale(s, 2)
    if letter == "NonUniformScale":
        return mt.NonUniformScale(np.array([1.0 + 0.004 + 0.008 * r.rand(), 1.0 - 0.004 - 0.008 * r.rand()]))
    if letter == "Translation":
        return mt.Translation(2.0 * t)
    if letter.startswith("Alignment"):
        src = L.generic_points(5, 2, seed, ("c03-al-src", letter, var))
        lin = _rot2(th).dot(np.diag([1.0 + 0.01 * r.rand(), 1.0 - 0.01 * r.rand()]))
        h = _about_centre(lin, t)
        tgt = src.dot(h[:2, :2].T) + h[:2, 2] + 0.01 * r.randn(5, 2)
        return getattr(mt, letter)(PointCloud(src), PointCloud(tgt))
    if letter == "TransformChain":
        return mt.TransformChain([mild("Affine", 10 + 2 * var, seed), mild("Translation", 11 + 2 * var, seed)])
    if letter == "WithDims":
        return mt.WithDims([1, 0])
    if letter == "ThinPlateSplines":
        src = L.generic_points(6, 2, seed, ("c03-tps-src", var), min_area=L.MIN_AREA)
        tgt = src + 0.2 * (r.rand(6, 2) - 0.5)
        return mt.ThinPlateSplines(PointCloud(src), PointCloud(tgt))
    if letter in ("PythonPWA", "CachedPWA"):
        src, tl = L.pwa_layout(seed, ("c03-pwa", var))
        tgt = src + 0.2 * (r.rand(5, 2) - 0.5)
        return M[letter](TriMesh(src, tl), TriMesh(tgt, tl))
    raise ValueError(letter)


def generic(letter, d, var, seed):
    mt = _m()["mt"]
    if letter == "TransformChain":
        # (the shared chain letter ignores the variant: two chains of one program must differ)
        return mt.TransformChain([L.transform(("Affine", d, 10 + 3 * var), seed), L.transform(("Rotation", d, 11 + 3 * var), seed), L.transform(("Translation", d, 12 + 3 * var), seed)])
    return L.transform((letter, d, var), seed)


def special(letter, d, seed):
    """letters of the decomposition clause that are not operand letters."""
    mt = _m()["mt"]
    r = L.rs(seed, "c03-special", letter, d)
    rot = L.rotation_matrix(d, seed, ("c03-special", letter))
    h = np.eye(d + 1)
    h[:d, d] = 0.5 + r.rand(d)
    if letter == "Affine-negdet":
        refl = np.eye(d)
        refl[0, 0] = -1.0
        h[:d, :d] = rot.dot(np.diag(0.7 + 0.8 * r.rand(d))).dot(refl) + 0.1 * r.rand(d, d)
        assert np.linalg.det(h[:d, :d]) < 0
        return mt.Affine(h)
    if letter in ("Affine-tie-largest", "Affine-tie-smallest"):
        # ties between SOME singular values only (one letter per position of the tie; in 2-D a tie is all-equal):
        # R1 diag(s) R2 with the tie built in exactly
        rot2_ = L.rotation_matrix(d, seed, ("c03-special2", letter))
        if letter == "Affine-tie-largest":
            sv = [1.6] * (d - 1) + [0.7]
        else:
            sv = [1.9] + [0.8] * (d - 1)
        # (singular values that differ by less than the 1e-5 relative tolerance of the Scale factory are decomposed
        # as uniform and recompose only to ~1e-6: outside "clearly equal or clearly different", not a letter)
        h[:d, :d] = rot.dot(np.diag(sv)).dot(rot2_)
        return mt.Affine(h)
    if letter == "Affine-equal-sv":
        # all singular values equal: Scale() takes its uniform shortcut inside decompose()
        h[:d, :d] = 1.7 * rot
        return mt.Affine(h)
    raise ValueError(letter)


def dims_of(letter, d):
    if letter == "WithDims" and d == 3:
        return (3, 2)
    return (d, d)


def entries_of(obj, letter, var, twin):
    """reference-model entries (kind, payload, letter, id) of a fresh operand, read before any compose
    call touches it; id = (letter, variant, member index) names the operand map symbolically."""
    M = _m()
    mt = M["mt"]
    if isinstance(obj, mt.Homogeneous):
        return [("H", np.array(obj.h_matrix, dtype=float, copy=True), letter, (letter, var, 0))]
    if isinstance(obj, mt.TransformChain):
        return [("H", np.array(t.h_matrix, dtype=float, copy=True), letter, (letter, var, i)) for i, t in enumerate(obj.transforms)]
    if isinstance(obj, mt.WithDims):
        return [("D", tuple(int(i) for i in obj.dims), letter, (letter, var, 0))]
    return [("T", twin(), letter, (letter, var, 0))]


# ------------------------------------------------------------------------------------------------
# reference evaluation
# ------------------------------------------------------------------------------------------------
def _ref_once(model, X):
    x = np.array(X, dtype=float, copy=True)
    mask = np.ones(len(x), dtype=bool)
    mag = float(np.abs(x).max())  # (no absolute floor: tolerances are relative to the data)
    TCE = _m()["TCE"]
    for e in model:
        if e[0] == "H":
            H = e[1]
            hx = np.hstack([x, np.ones((len(x), 1))])
            hy = hx.dot(H.T)
            den = hy[:, -1]
            terms = np.abs(hx).dot(np.abs(H[-1]))
            with np.errstate(all="ignore"):
                mask &= np.abs(den) > HORIZON * terms
                x = hy[:, :-1] / den[:, None]
        elif e[0] == "D":
            x = x[:, list(e[1])].copy()
        else:
            if not mask.all():
                return x, mask, mag  # restart on the reduced probe set first
            try:
                x = np.asarray(e[1].apply(x.copy()))
            except TCE:
                raise Outside(e[2])
        if mask.any():
            with np.errstate(all="ignore"):
                mag = max(mag, float(np.abs(x[mask]).max()))
    return x, mask, mag


def ref_eval(model, X):
    """-> (probe points actually used, their images under the sequential application, magnitude)."""
    for _ in range(4):
        y, mask, mag = _ref_once(model, X)
        if mask.all():
            return X, y, mag
        X = X[mask]
        if len(X) == 0:
            break
    return X[:0], np.zeros((0, 0)), 1.0


# ------------------------------------------------------------------------------------------------
# class honesty
# ------------------------------------------------------------------------------------------------
def dishonest(t, length=5.5):
    """None, or why the class of a homogeneous-family transform does not describe its matrix."""
    mt = _m()["mt"]
    h = np.asarray(t.h_matrix, dtype=float)
    d = h.shape[0] - 1
    lin, tr = h[:d, :d], h[:d, d]
    # structural zeros / ones are exact in every legitimate computation; orthogonality holds to rounding: the
    # tolerance is relative to the linear part and far below any deviation a scale letter uses (1e-9)
    tol = HONEST_TOL * float(np.abs(lin).max())
    eye = np.eye(d)
    if isinstance(t, mt.Affine):
        # (the projective row has the unit 1 / length: it is judged by what it does to data of that extent)
        if not (np.abs(h[d, :d]).max() * length <= tol and abs(h[d, d] - 1.0) <= tol):
            return "an Affine whose last row is %r" % (h[d].tolist(),)
    if isinstance(t, mt.Similarity):
        g = lin.T.dot(lin)
        s2 = np.trace(g) / d
        if np.abs(g - s2 * eye).max() > HONEST_TOL * float(np.abs(g).max()):
            return "a Similarity whose linear part L has L'L = %r" % (g.tolist(),)
    if isinstance(t, mt.Rotation):
        if np.abs(lin.T.dot(lin) - eye).max() > tol:
            return "a Rotation whose linear part is not orthogonal: %r" % (lin.tolist(),)
        if np.abs(tr).max() > tol:
            return "a Rotation with translation %r" % (tr.tolist(),)
    if isinstance(t, mt.Translation):
        if np.abs(lin - eye).max() > tol:
            return "a Translation with linear part %r" % (lin.tolist(),)
    if isinstance(t, mt.UniformScale):
        if np.abs(lin - lin[0, 0] * eye).max() > tol or np.abs(tr).max() > tol:
            return "a UniformScale with matrix %r" % (h.tolist(),)
    if isinstance(t, mt.NonUniformScale):
        if np.abs(lin - np.diag(np.diag(lin))).max() > tol or np.abs(tr).max() > tol:
            return "a NonUniformScale with matrix %r" % (h.tolist(),)
    return None


def not_equivariant(ts, t1, s):
    """None, or how the transform built from the payload scaled by s differs from the conjugate of the one
    built from the unscaled payload (class structure equal, matrices equal block by block, relative)."""
    mt = _m()["mt"]
    if type(ts).__name__ != type(t1).__name__:
        return "result is a %s, on the unscaled payload a %s" % (type(ts).__name__, type(t1).__name__)
    if isinstance(ts, mt.TransformChain):
        if len(ts.transforms) != len(t1.transforms):
            return "chain of %d members, on the unscaled payload %d" % (len(ts.transforms), len(t1.transforms))
        for i, (a, b) in enumerate(zip(ts.transforms, t1.transforms)):
            why = not_equivariant(a, b, s)
            if why:
                return "member %d: %s" % (i, why)
        return None
    if not isinstance(ts, mt.Homogeneous):
        return None
    hs, h1 = np.asarray(ts.h_matrix, dtype=float), np.asarray(t1.h_matrix, dtype=float)
    d = h1.shape[0] - 1
    want = conjugated(h1, s)
    extent = 5.5  # the unscaled payload lives in [0.5, 5.5]^d
    lin = float(np.abs(h1[:d, :d]).max())
    blocks = [
        ("linear part", hs[:d, :d], want[:d, :d], lin),
        ("translation", hs[:d, d], want[:d, d], s * (float(np.abs(h1[:d, d]).max()) + lin * extent)),
        ("projective row", hs[d, :d], want[d, :d], (float(np.abs(h1[d, :d]).max()) + abs(h1[d, d]) / extent) / s),
        ("corner", hs[d, d:], want[d, d:], abs(h1[d, d])),
    ]
    for name, got, exp, mag in blocks:
        err = float(np.abs(got - exp).max())
        if not err <= EQTOL * mag:
            return "%s is %r, the conjugate of the unscaled result has %r (error %.3g, magnitude %.3g)" % (name, got.tolist(), exp.tolist(), err, mag)
    return None


def _brief(o):
    if o is None or isinstance(o, np.ndarray):
        return "None" if o is None else "ndarray%s" % (o.shape,)
    return "%s, n_dims %s" % (type(o).__name__, getattr(o, "n_dims", "?"))


def _bucket(e):
    if not e > 0:
        return "0"
    if not np.isfinite(e):
        return "inf"
    return "<=1e%+03d" % int(np.ceil(np.log10(e)))


def structure(t):
    """class structure of the transform built so far (no numbers)."""
    mt = _m()["mt"]
    if isinstance(t, mt.TransformChain):
        return (type(t).__name__, tuple(structure(m) for m in t.transforms))
    return type(t).__name__


class C03(Check):
    id = "C03"
    title = "composition obeys its law, is closed and type-sound, leaves operands intact"

    def __init__(self, tier, seed):
        Check.__init__(self, tier, seed)
        self._blobs = {}
        self._probes = {}

    def depth(self):
        return max([len(SCHEDULES[s]) for s in self._scheds()] + [len(HELD_SCHEDULES[s]) for s in self._held_scheds()])

    def _held_scheds(self):
        return ["H"] if self.tier == "quick" else ["H", "HT"]

    def _scheds(self):
        return ["Q"] if self.tier == "quick" else ["Q", "B"]

    def roots(self):
        out = []
        for sched in self._scheds():
            for (world, d), letters in FULL.items():
                for letter in letters:
                    out.append((d, world, letter, sched))
        for sched in self._held_scheds():
            for d in (2, 3):
                for letter in HOMOG + OPTION_LETTERS:
                    out.append((d, "h", letter, sched))
        for world, letters in S_ROOTS.items():
            for d in (2, 3):
                for letter in letters:
                    out.append((d, world, letter, "S"))
        for d in (2, 3):
            for letter in DEC_LETTERS:
                out.append((d, "dec", letter, "-"))
        return out

    # ------------------------------------------------------------------ state
    def make(self, world, d, letter, var):
        """A FRESH instance of an operand letter.  The letter is constructed once per process through
        mc.letters (seeding a RandomState per letter is what costs) and kept pickled; every request
        unpickles a new, unshared object graph (python's pickle, not menpo's copy(), which is under test)."""
        if world == "h":
            world = "g"
        key = (world, d, letter, var)
        blob = self._blobs.get(key)
        if blob is None:
            if world == "m":
                obj = mild(letter, var, self.seed)
            elif world.startswith("s:"):
                obj = scale_world_letter(world, d, letter, var, self.seed)
            elif letter in ("Affine-negdet", "Affine-equal-sv", "Affine-tie-largest", "Affine-tie-smallest"):
                obj = special(letter, d, self.seed)
            elif letter in INT_LETTERS:
                obj = int_letter(letter, d)
            elif letter in EXTRA_LETTERS:
                obj = extra_letter(letter, d, var, self.seed)
            else:
                obj = generic(letter, d, var, self.seed)
            blob = self._blobs[key] = pickle.dumps(obj, protocol=pickle.HIGHEST_PROTOCOL)
        return pickle.loads(blob)

    def operand(self, world, d, letter, var):
        obj = self.make(world, d, letter, var)
        ent = entries_of(obj, letter, var, lambda: self.make(world, d, letter, var))
        return obj, ent

    def probes(self, world, d):
        key = (world, d)
        if key not in self._probes:
            if world == "m":
                p = L.pwa_domain_points(self.seed, 8, "c03-dom")
                x = 3.0 + (p - 3.0) * (1.0 / 1.8)  # [1.2,4.8] -> [2,4]: margin for 8 mild maps
            elif world in POW:
                x = POW[world] * self.probes("g", d)
            elif world == "s:offset":
                x = OFFSET + self.probes("g", d)
            elif world == "s:big":
                x = 0.5 + 5.0 * L.rs(self.seed, "c03-big", d).rand(BIG_N, d)
            elif world == "s:near":
                x = np.array(self.probes("g", d))
            else:
                x = L.generic_points(8, d, self.seed, ("c03-probe", d), min_dist=0.5)
            x.setflags(write=False)
            self._probes[key] = x
        return self._probes[key]

    def build(self, root):
        d, world, letter, sched = int(root[0]), root[1], root[2], root[3]
        w = "g" if world in ("dec", "h") else world
        cur, model = self.operand(w, d, letter, 0)
        extra = {}
        if world in POW:
            extra["cur1"] = self.make("g", d, letter, 0)  # the twin program on the unscaled payload
        if world == "s:near":
            extra["Xextra"] = [2.0 ** 20 * self.probes(w, d), 2.0 ** -20 * self.probes(w, d)]
        din, dout = dims_of(letter, d)
        held, held_model = self.operand(w, d, letter, HELD_VAR) if world == "h" else (None, None)
        return dict(extra, **{
            "held": held,
            "held_model": held_model,
            "held_ver": 0,
            "hist": (),
            "d": d,
            "world": world,
            "sched": sched,
            "letter": letter,
            "cur": cur,
            "model": model,
            "din": din,
            "dout": dout,
            "n": 0,
            "honest": True,
            "X": self.probes(w, d),
            "length": float(np.abs(self.probes(w, d)).max()),  # extent of the data of this world
            "old": [],
        })

    def canon(self, st):
        # Symbolic key: class structure of the live object + the operand maps in application order.  Two
        # programs with the same key have (after their own step oracles passed) the same class structure and,
        # up to 1e-9, the same matrices / members, i.e. the same futures.  No rounded floating point number
        # enters the key, so the confluence re-expansion of the thorough tier cannot be fooled by a value that
        # straddles a rounding boundary.
        if st["world"] == "h":
            # no merging at all in the held-operand world: what is hunted there (something remembered from an
            # earlier call) is by definition not a function of the visible state
            return ("h", st["hist"])
        return (st["n"], st["din"], st["dout"], st["honest"], structure(st["cur"]), tuple(e[3] for e in st["model"]))

    # ------------------------------------------------------------------ alphabet
    def ops(self, st, level):
        if st["world"] == "dec":
            return []
        if st["world"] == "h":
            return self._held_ops(st, level)
        if st["world"].startswith("s:"):
            levels = S_OPS[st["world"]]
            if level >= len(levels):
                return []
            cur_inplace = hasattr(st["cur"], "compose_before_inplace")
            out = []
            for role in ("r",) if level == 0 else ("r", "a"):
                for letter in levels[level]:
                    if letter == NEAR_INVERSE and (role == "a" or not all(e[0] == "H" and e[1].dtype.kind == "f" and np.abs(e[1][-1, :-1]).max() == 0 for e in st["model"])):
                        continue
                    for m in METHODS:
                        if m in ("cbi", "cai") and role == "r" and not cur_inplace:
                            continue
                        out.append((m, letter, role))
            return out
        sched = SCHEDULES[st["sched"]]
        if level >= len(sched):
            return []
        size, roles = sched[level]
        letters = {"full": FULL, "reduced": REDUCED}[size][(st["world"], st["d"])]
        cur_inplace = hasattr(st["cur"], "compose_before_inplace")
        out = []
        rf_dim = ()
        if st["world"] == "g" and (level == 0 or (st["sched"] == "B" and level == 1)):
            if cur_inplace:
                out += [("rf", m, "obj", k) for k in NON_TRANSFORMS for m in ("cbi", "cai")]
            if isinstance(st["cur"], _m()["mt"].Homogeneous) and st["din"] == st["dout"] == st["d"]:
                if level == 0:
                    rf_dim = tuple(HOMOG)
                else:
                    own = type(st["cur"]).__name__
                    rf_dim = tuple(l for l in dict.fromkeys(own if w == "same" else w for w in REFUSE_DIM_REDUCED) if l in HOMOG)
                    out += [("rf", m, "dim", l) for l in rf_dim for m in METHODS]
                    rf_dim = ()
        for role in roles:
            for letter in letters:
                if role == "r" and letter in rf_dim:
                    # right before the valid composes with this class: the same class in the other dimensionality
                    out += [("rf", m, "dim", letter) for m in METHODS]
                odin, odout = dims_of(letter, st["d"])
                op_inplace = letter in HOMOG_NATIVE or letter == "TransformChain"
                for m in METHODS:
                    # which map is applied first: method 'before' => receiver first
                    recv_first = m in ("cb", "cbi")
                    cur_first = recv_first == (role == "r")
                    if cur_first and st["dout"] != odin:
                        continue
                    if not cur_first and odout != st["din"]:
                        continue
                    if m in ("cbi", "cai") and not (cur_inplace if role == "r" else op_inplace):
                        continue
                    out.append((m, letter, role))
        return out

    # ------------------------------------------------------------------ step
    def apply(self, st, op, verify=True):
        self._length = st["length"]
        if op[0] in ("hc", "hr", "hx"):
            return self._apply_held(st, op, verify)
        if op[0] == "rf":
            return self._apply_refused(st, op, verify)
        m, letter, role = op
        d, world = st["d"], st["world"]
        if letter == NEAR_INVERSE:
            operand, ent = self._near_inverse(st, m)
        else:
            operand, ent = self.operand(world, d, letter, st["n"] + 1)
        odin, odout = dims_of(letter, d)
        cur = st["cur"]
        if role == "r":
            recv, arg, recv_model, arg_model = cur, operand, st["model"], ent
        else:
            recv, arg, recv_model, arg_model = operand, cur, ent, st["model"]
        recv_first = m in ("cb", "cbi")
        cur_first = recv_first == (role == "r")
        new_din, new_dout = (st["din"], odout) if cur_first else (odin, st["dout"])
        where = "%s(%s)" % (MNAME[m], "state-is-receiver" if role == "r" else "state-is-argument")
        fails, accepted, new_cur, new_model, obs_r, obs_a = self._call(st, m, recv, arg, recv_model, arg_model, where, verify, st["honest"], st["n"] == 0 and not world.startswith("s:"))
        pair = "%s.%s(%s)" % (type(recv).__name__, MNAME[m], type(arg).__name__)
        if world in POW:
            # scale equivariance: the same call on the unscaled twins gives the same class and the conjugated matrix
            op1 = self.make("g", d, letter, st["n"] + 1)
            recv1, arg1 = (st["cur1"], op1) if role == "r" else (op1, st["cur1"])
            try:
                res1 = getattr(recv1, MNAME[m])(arg1)
                acc1 = True
            except ValueError:
                res1, acc1 = None, False
            if m in ("cbi", "cai"):
                res1 = recv1
            if verify:
                self.note("equivariance:%s" % world)
                if acc1 != accepted:
                    fails.append(Failure(where, "scale-equivariance", "%s is %s on the payload scaled by %g and %s on the unscaled payload" % (pair, "accepted" if accepted else "refused", POW[world], "accepted" if acc1 else "refused")))
                elif accepted:
                    why = not_equivariant(new_cur, res1, POW[world])
                    if why:
                        fails.append(Failure(where, "scale-equivariance", "%s on the payload scaled by %g: %s" % (pair, POW[world], why)))
            if acc1:
                st["cur1"] = res1
        if verify and world.startswith("s:"):
            self.note("scale-world:%s" % world)
            if "-near" in letter or letter in OFFSET_LETTERS:
                self.note("operand:%s" % letter)
            if len(st["X"]) == BIG_N:
                self.note("map:big-probe-set")
        if verify and not fails:
            # objects handed to earlier non-in-place calls must still be what they were
            for tag, obj, obs in st["old"]:
                df = obs_diff(obs, observe(obj))
                if df:
                    fails.append(Failure(where, "earlier-operand-changed", "%s changed the %s of the previous compose call: %s" % (pair, tag, df)))
            if st["old"]:
                self.note("operands:earlier-unchanged-checked")
        if not accepted:
            return fails  # state unchanged
        if m in ("cb", "ca"):
            # (a state is rebuilt by replaying with verify=False: the step was verified when first explored, so
            # the observation after the call is the observation before it)
            st["old"] = [("receiver", recv, obs_r if verify else observe(recv)), ("argument", arg, obs_a if verify else observe(arg))]
        else:
            st["old"] = []
        st["cur"] = new_cur
        st["model"] = new_model
        st["din"], st["dout"] = new_din, new_dout
        st["n"] += 1
        if verify:
            self.note("program-length:%d" % st["n"])
            if letter in EXTRA_LETTERS:
                self.note("operand:%s" % letter)
            if m in ("cbi", "cai") and role == "r" and st["n"] == 1 and st["letter"] in EXTRA_LETTERS:
                self.note("inplace-receiver:%s" % st["letter"])
        mt = _m()["mt"]
        st["honest"] = (dishonest(new_cur, self._length) is None) if isinstance(new_cur, mt.Homogeneous) else True
        if verify and not st["honest"]:
            self.note("state:dishonest-after-%s" % ("inplace" if m in ("cbi", "cai") else "composing-a-dishonest-operand"))
        return fails

    def _call(self, st, m, recv, arg, recv_model, arg_model, where, verify, operands_honest, with_decompose):
        """One real compose call + its step oracle.  -> (fails, accepted, object that now carries the
        composition, its model, observation of receiver / argument before the call)."""
        mt = _m()["mt"]
        recv_first = m in ("cb", "cbi")
        new_model = (recv_model + arg_model) if recv_first else (arg_model + recv_model)
        pair = "%s.%s(%s)" % (type(recv).__name__, MNAME[m], type(arg).__name__)
        fails = []
        obs_r = obs_a = None
        both_homog = isinstance(recv, mt.Homogeneous) and isinstance(arg, mt.Homogeneous)
        if verify:
            obs_r, obs_a = observe(recv), observe(arg)
            if both_homog:
                det_r = np.linalg.det(np.asarray(recv.h_matrix)[:-1, :-1])
                det_a = np.linalg.det(np.asarray(arg.h_matrix)[:-1, :-1])
                conds = (np.linalg.cond(np.asarray(recv.h_matrix, dtype=float)), np.linalg.cond(np.asarray(arg.h_matrix, dtype=float)))

        if m in ("cb", "ca"):
            res = getattr(recv, MNAME[m])(arg)
            if verify:
                self.note("%s:%s" % (m, "native" if not isinstance(res, mt.TransformChain) else "chain"))
                if res is recv or res is arg:
                    fails.append(Failure(where, "result-is-an-operand", "%s returned its %s" % (pair, "receiver" if res is recv else "argument")))
                df = obs_diff(obs_r, observe(recv))
                if df:
                    fails.append(Failure(where, "receiver-changed", "%s changed its receiver: %s" % (pair, df)))
                df = obs_diff(obs_a, observe(arg))
                if df:
                    fails.append(Failure(where, "argument-changed", "%s changed its argument: %s" % (pair, df)))
                self.note("operands:unchanged-checked")
                if both_homog:
                    fails.extend(self._closure(res, where, pair, operands_honest, det_r, det_a, conds))
                for X in [st["X"]] + st.get("Xextra", []):
                    fails.extend(self._map(res, new_model, X, where, pair, "composition-law"))
                if not fails and isinstance(res, mt.Affine) and with_decompose:
                    fails.extend(self._decompose(res, where, "result of " + pair))
            return fails, True, res, new_model, obs_r, obs_a
        expect_accept = isinstance(arg, recv.composes_inplace_with)
        try:
            getattr(recv, MNAME[m])(arg)
            accepted = True
        except ValueError:
            accepted = False
        retry_accepted = False
        if not accepted:
            try:  # a refusal is repeatable
                getattr(recv, MNAME[m])(arg)
                retry_accepted = True
            except ValueError:
                pass
        if verify:
            self.note("%s:%s" % (m, "accepted" if accepted else "ValueError"))
            if retry_accepted:
                fails.append(Failure(where, "refusal-not-repeatable", "%s raised ValueError the first time and was accepted the second time" % pair))
            if not accepted:
                df = obs_diff(obs_a, observe(arg))
                if df:
                    fails.append(Failure(where, "argument-changed-by-refused-inplace", "%s raised ValueError but changed its argument: %s" % (pair, df)))
            if accepted != expect_accept:
                fails.append(
                    Failure(where, "inplace-acceptance", "%s %s although isinstance(argument, receiver.composes_inplace_with) is %s" % (pair, "was accepted" if accepted else "raised ValueError", expect_accept))
                )
            if accepted:
                for X in [st["X"]] + st.get("Xextra", []):
                    fails.extend(self._map(recv, new_model, X, where, pair, "inplace-same-map"))
                if both_homog:
                    # the receiver keeps its class, so what it accepts must keep its matrix inside that class
                    if operands_honest:
                        why = dishonest(recv, self._length)
                        self.note("inplace-honest:%s" % type(recv).__name__)
                        if why:
                            fails.append(Failure(where, "class-honesty-inplace", "%s was accepted and left %s" % (pair, why)))
                    else:
                        self.note("honesty:not-demanded-dishonest-operand")
            else:
                df = obs_diff(obs_r, observe(recv))
                if df:
                    fails.append(Failure(where, "receiver-changed-by-refused-inplace", "%s raised ValueError but changed its receiver: %s" % (pair, df)))
        return fails, accepted, recv, new_model, obs_r, obs_a

    def _near_inverse(self, st, m):
        """an Affine that nearly undoes the state: the composition is identity + ~1e-9 (nearly equal operands)."""
        mt = _m()["mt"]
        d = st["d"]
        prod = np.eye(d + 1)
        for e in st["model"]:
            prod = e[1].dot(prod)
        r = L.rs(self.seed, "c03-nearinv", d, st["n"], tuple(e[3] for e in st["model"]))
        pert = np.eye(d + 1)
        pert[:d, :] += 1e-9 * (0.5 + 0.5 * r.rand(d, d + 1)) * np.where(r.rand(d, d + 1) < 0.5, -1.0, 1.0)
        inv = np.linalg.inv(prod)
        h = pert.dot(inv) if m in ("cb", "cbi") else inv.dot(pert)  # (role r: 'before' applies the operand second)
        h[d, :] = 0.0
        h[d, d] = 1.0
        obj = mt.Affine(h)
        return obj, [("H", np.array(obj.h_matrix, dtype=float, copy=True), NEAR_INVERSE, (NEAR_INVERSE, st["n"] + 1, 0) + tuple(e[3] for e in st["model"]))]

    # ------------------------------------------------------------------ refused calls
    def _non_transform(self, kind, d):
        return None if kind == "None" else 2.0 * np.eye(d + 1)

    def _refused(self, recv, m, arg, kind, where, pool, verify):
        """A call the tree refuses: it raises, raises again when retried, and leaves receiver, argument and every
        other object of the pool observably unchanged.  pool = [(tag, object)]."""
        pair = "%s.%s(%s)" % (type(recv).__name__, MNAME[m], type(arg).__name__)
        objs = [("receiver", recv), ("argument", arg)] + [(t, o) for t, o in pool if o is not recv and o is not arg]
        before = [(t, o, observe(o)) for t, o in objs] if verify else []
        raised = []
        for _ in (1, 2):
            try:
                getattr(recv, MNAME[m])(arg)
                raised.append(None)
            except Exception as e:  # the expectation here IS an exception; which one is recorded below
                raised.append(type(e).__name__)
        if not verify:
            return []
        fails = []
        self.note("refused:%s:%s" % (kind, raised[0] or "ACCEPTED"))
        what = {"dim": "an operand of the other dimensionality", "obj": "an operand that is no transform"}[kind]
        if raised[0] is None:
            fails.append(Failure(where, "not-refused", "%s with %s (%s) did not raise" % (pair, what, _brief(arg))))
        elif raised[1] != raised[0]:
            fails.append(Failure(where, "refusal-not-repeatable", "%s with %s raised %s, the retry %s" % (pair, what, raised[0], raised[1] or "was accepted")))
        for t, o, obs in before:
            df = obs_diff(obs, observe(o))
            if df:
                fails.append(Failure(where, "%s-changed-by-refused-call" % t, "%s with %s (raised: %s) changed the %s: %s" % (pair, what, raised, t, df)))
        return fails

    def _apply_refused(self, st, op, verify):
        """ordinary worlds: a refused call on the state (self loop)."""
        _, m, kind, which = op
        cur = st["cur"]
        if kind == "dim":
            arg = self.make("g", 5 - st["d"], which, REFUSE_VAR)
        else:
            arg = self._non_transform(which, st["d"])
        where = "%s(state, %s)" % (MNAME[m], "other-dimensionality" if kind == "dim" else "non-transform")
        fails = self._refused(cur, m, arg, kind, where, [], verify)
        if verify and not fails:
            fails.extend(self._map(cur, st["model"], st["X"], where, type(cur).__name__, "state-changed-by-refused-call"))
        return fails

    # ------------------------------------------------------------------ the held-operand world
    def _held_ops(self, st, level):
        sched = HELD_SCHEDULES[st["sched"]]
        if level >= len(sched):
            return []
        groups = sched[level]
        partners = [p for p in PARTNERS if not (p == "Affine" and st["letter"] == "Affine")]
        out = []
        if "n" in groups:
            for m in ("cb", "ca"):
                out += [("hc", m, "held", p) for p in partners]
                out += [("hc", m, p, "held") for p in partners]
        if "r" in groups:
            if isinstance(st["held"], _m()["Alignment"]):
                out += [("hr", "set_target", 1), ("hr", "set_target", 2)]
            out.append(("hr", "from_vector", 1))
        if "x" in groups or "X" in groups:
            full = "X" in groups
            kinds = ["dim:same"] + (["dim:Affine"] if full and st["letter"] != "Affine" else [])
            for k in kinds:
                out += [("hx", m, "held", k) for m in METHODS]
            out += [("hx", m, "held", "obj:" + k) for k in (NON_TRANSFORMS if full else NON_TRANSFORMS[:1]) for m in (("cbi", "cai") if full else ("cbi",))]
            out += [("hx", m, "dim:same", "held") for m in (METHODS if full else ("cbi",))]
        if "h" in groups:
            for m in ("cbi", "cai"):
                out += [("hc", m, "held", p) for p in partners]
        if "p" in groups:
            for m in ("cbi", "cai"):
                out += [("hc", m, p, "held") for p in partners]
        return out

    def _new_target(self, held, k):
        """a target reachable by no map of the class exactly: a generic affine image of the source + noise."""
        PointCloud = _m()["PointCloud"]
        d = held.n_dims
        a = np.asarray(self.make("g", d, "Affine", 30 + k).h_matrix, dtype=float)
        src = np.asarray(held.source.points, dtype=float)
        r = L.rs(self.seed, "c03-target", type(held).__name__, d, k)
        return PointCloud(src.dot(a[:d, :d].T) + a[:d, d] + 0.05 * r.randn(*src.shape))

    def _apply_held(self, st, op, verify):
        M = _m()
        mt = M["mt"]
        d, letter = st["d"], st["letter"]
        held, cur = st["held"], st["cur"]
        fails = []
        if op[0] == "hr":
            kind, k = op[1], op[2]
            where = "held-operand.%s" % kind
            obs_cur = observe(cur) if verify else None
            if kind == "set_target":
                held.set_target(self._new_target(held, k))
            else:
                donor = self.make("g", d, letter, DONOR_VAR)
                try:
                    v = np.array(donor.as_vector(), dtype=float, copy=True)
                    held.from_vector_inplace(v)
                except NotImplementedError:
                    if verify:
                        self.note("held:from_vector-not-implemented")
                    return []  # this class is not vectorizable in this dimension: nothing happened
            st["held_ver"] += 1
            st["hist"] = st["hist"] + (op,)
            # the operand's parameters at the time of the next calls
            st["held_model"] = [("H", np.array(held.h_matrix, dtype=float, copy=True), letter, (letter, HELD_VAR, 0) + st["hist"])]
            if verify:
                self.note("held:reparam-%s" % kind)
                why = dishonest(held, self._length)
                if why:
                    fails.append(Failure(where, "class-honesty-after-reparametrisation", "%s.%s left %s" % (type(held).__name__, kind, why)))
                fails.extend(self._map(held, st["held_model"], st["X"], where, type(held).__name__, "apply-after-reparametrisation"))
                # what was built from the operand earlier is an independent object
                df = obs_diff(obs_cur, observe(cur))
                if df:
                    fails.append(Failure(where, "earlier-result-changed", "re-parametrising the %s operand changed the transform composed from it earlier: %s" % (type(held).__name__, df)))
                fails.extend(self._map(cur, st["model"], st["X"], where, type(cur).__name__, "earlier-result-changed"))
            return fails

        if op[0] == "hx":
            _, m, rw, aw = op

            def pick_x(w):
                if w == "held":
                    return held
                kind, which = w.split(":")
                if kind == "dim":
                    return self.make("g", 5 - d, letter if which == "same" else which, REFUSE_VAR)
                return self._non_transform(which, d)

            recv, arg = pick_x(rw), pick_x(aw)
            kind = (rw if rw != "held" else aw).split(":")[0]
            where = "%s(%s, %s)" % (MNAME[m], "held-operand" if rw == "held" else "other-dimensionality", "held-operand" if aw == "held" else ("other-dimensionality" if kind == "dim" else "non-transform"))
            fails = self._refused(recv, m, arg, kind, where, [("held operand", held), ("state", cur)], verify)
            if verify:
                self.note("held:refused-call")
                if not fails:
                    fails.extend(self._map(held, st["held_model"], st["X"], where, type(held).__name__, "held-operand-changed-by-refused-call"))
                    fails.extend(self._map(cur, st["model"], st["X"], where, type(cur).__name__, "state-changed-by-refused-call"))
            # the state "has been through this refusal" is explored further (canon is the history)
            st["hist"] = st["hist"] + (op,)
            st["refusals"] = st.get("refusals", 0) + 1
            return fails

        _, m, rw, aw = op

        def pick(w):
            if w == "held":
                return held, st["held_model"]
            if w == "cur":
                return cur, st["model"]
            return self.operand("g", d, letter if w == "same" else "Affine", st["n"] + 1)

        recv, recv_model = pick(rw)
        arg, arg_model = pick(aw)
        where = "%s(%s-operand, %s)" % (MNAME[m], {"held": "held", "cur": "state", "same": "fresh-same-class", "Affine": "fresh-Affine"}[rw], {"held": "held-operand", "cur": "state", "same": "fresh-same-class", "Affine": "fresh-Affine"}[aw])
        pair = "%s.%s(%s)" % (type(recv).__name__, MNAME[m], type(arg).__name__)
        bystander = None
        if verify:
            obs_held = observe(held)
            if "cur" not in (rw, aw) and m in ("cbi", "cai"):
                bystander = observe(cur)  # stays in the pool untouched
        fails, accepted, new_obj, new_model, obs_r, obs_a = self._call(st, m, recv, arg, recv_model, arg_model, where, verify, True, False)
        if verify:
            self.note("held:compose-%s%s" % ("inplace" if m in ("cbi", "cai") else "new", "-after-reparametrisation" if st["held_ver"] else ""))
            if st.get("refusals"):
                self.note("held:compose-after-refused-call")
            if m in ("cbi", "cai") and aw == "held":
                df = obs_diff(obs_held, observe(held))
                if df:
                    fails.append(Failure(where, "argument-changed-by-inplace", "%s changed its argument: %s" % (pair, df)))
            if m in ("cbi", "cai") and aw == "cur" and accepted:
                df = obs_diff(obs_a, observe(cur))
                if df:
                    fails.append(Failure(where, "argument-changed-by-inplace", "%s changed its argument: %s" % (pair, df)))
            if bystander is not None:
                df = obs_diff(bystander, observe(cur))
                if df:
                    fails.append(Failure(where, "bystander-changed", "%s changed a transform that took no part in the call: %s" % (pair, df)))
        if not accepted:
            return fails
        if m in ("cb", "ca") or rw != "held":
            st["cur"], st["model"] = new_obj, new_model  # the result / the partner that swallowed the held operand
        else:
            st["held_model"] = new_model  # the held operand swallowed its partner
            st["held_ver"] += 1
            if verify:
                self.note("held:reparam-compose_inplace")
        st["n"] += 1
        st["hist"] = st["hist"] + (op,)
        if verify:
            self.note("program-length:%d" % st["n"])
        return fails

    # ------------------------------------------------------------------ oracles
    def _map(self, t, model, X, where, pair, clause):
        M = _m()
        try:
            Xu, ref, mag = ref_eval(model, X)
        except Outside as o:
            self.note("map:reference-leaves-pwa-domain")
            try:
                t.apply(X.copy())
            except M["TCE"]:
                return []
            return [Failure(where, clause, "%s: the sequential application leaves the domain of %s but the composite did not raise" % (pair, o))]
        if len(Xu) < len(X):
            self.note("map:probe-near-horizon-dropped")
        if len(Xu) < X.shape[1] + 2:
            self.note("map:too-few-probes-left")
            return []
        has_pwa = any(e[2] in ("PythonPWA", "CachedPWA") for e in model)
        self.note("map:%s%s" % ("%d-maps" % min(len(model), 4), "-with-pwa" if has_pwa else ""))
        try:
            got = np.asarray(t.apply(Xu.copy()))
        except M["TCE"]:
            return [Failure(where, clause, "%s: composite raised TriangleContainmentError although every intermediate point is inside the domain" % pair)]
        except Exception as e:  # the sequential application is defined here, so the composite has to be
            return [Failure(where, clause, "%s: applying the composite raised %s: %s although the sequential application of the %d operand maps is defined" % (pair, type(e).__name__, e, len(model)))]
        if got.shape != ref.shape:
            return [Failure(where, clause, "%s: composite maps %s points to shape %s, sequential application gives %s" % (pair, Xu.shape, got.shape, ref.shape))]
        err = float(np.abs(got - ref).max())
        self.note("maperr:%s" % _bucket(err / mag))
        if not err <= TOL * mag:
            i = int(np.argmax(np.abs(got - ref).max(axis=1)))
            return [Failure(where, clause, "%s: point %r is mapped to %r, sequential application of the %d operand maps gives %r (error %.3g)" % (pair, Xu[i].tolist(), got[i].tolist(), len(model), ref[i].tolist(), err))]
        return self._matrix(t, model, where, pair, clause)

    def _matrix(self, t, model, where, pair, clause):
        """Matrix form of the law for a homogeneous-family composite of homogeneous-family operands: its matrix is
        the float64 product of the operand matrices, elementwise within MTOL x (product of the |operand matrices|)
        - the rounding-error bound of a matrix product, so the comparison is relative to every operand's own
        magnitude and to its deviation from the identity (a point-wise comparison hides a deviation of 1e-9 next
        to coordinates of order 1).  Projective results are compared up to their free scalar."""
        mt = _m()["mt"]
        if not isinstance(t, mt.Homogeneous) or not all(e[0] == "H" for e in model):
            return []
        exp = np.asarray(model[0][1], dtype=float)
        bound = np.abs(exp)
        for e in model[1:]:
            h = np.asarray(e[1], dtype=float)
            exp = h.dot(exp)
            bound = np.abs(h).dot(bound)
        got = np.asarray(t.h_matrix, dtype=float)
        if got.shape != exp.shape:
            return [Failure(where, clause, "%s: matrix of shape %s, product of the operand matrices has %s" % (pair, got.shape, exp.shape))]
        if not isinstance(t, mt.Affine):
            c = float(np.vdot(exp, got) / np.vdot(exp, exp))
            exp, bound = c * exp, abs(c) * bound
        err = np.abs(got - exp)
        with np.errstate(all="ignore"):
            rel = float(np.max(np.where(bound > 0, err / np.where(bound > 0, bound, 1.0), np.where(err > 0, np.inf, 0.0))))
        self.note("materr:%s" % _bucket(rel))
        if not rel <= MTOL:
            i, j = np.unravel_index(int(np.argmax(np.where(bound > 0, err / np.where(bound > 0, bound, 1.0), np.where(err > 0, np.inf, 0.0)))), err.shape)
            return [Failure(where, clause, "%s: entry (%d,%d) of the matrix is %r, the product of the %d operand matrices has %r (difference %.3g, %.3g relative to the product of the absolute matrices)" % (pair, i, j, float(got[i, j]), len(model), float(exp[i, j]), float(err[i, j]), rel))]
        return []

    def _closure(self, res, where, pair, operands_honest, det_r, det_a, conds):
        M = _m()
        mt = M["mt"]
        fails = []
        if isinstance(res, mt.TransformChain) or not isinstance(res, mt.Homogeneous):
            return [Failure(where, "closure", "%s of two homogeneous-family transforms returned a %s" % (pair, type(res).__name__))]
        if isinstance(res, M["Alignment"]) or hasattr(res, "source") or hasattr(res, "target"):
            fails.append(Failure(where, "result-is-an-alignment", "%s returned a %s (has source/target)" % (pair, type(res).__name__)))
        h = np.asarray(res.h_matrix, dtype=float)
        # invertible, relative to the operands: cond(AB) <= cond(A) cond(B) (no absolute conditioning threshold)
        if h.shape[0] != h.shape[1] or not np.all(np.isfinite(h)) or not np.linalg.cond(h) <= 10.0 * conds[0] * conds[1] or not res.has_true_inverse:
            fails.append(Failure(where, "invertible", "%s returned a %s with matrix %r" % (pair, type(res).__name__, h.tolist())))
            return fails
        if not operands_honest:
            self.note("honesty:not-demanded-dishonest-operand")
            return fails
        why = dishonest(res, self._length)
        self.note("honest:%s" % type(res).__name__)
        if why:
            fails.append(Failure(where, "class-honesty", "%s returned %s" % (pair, why)))
        elif isinstance(res, mt.Rotation):
            if det_r > 0 and det_a > 0:
                self.note("rotation:det+1-demanded")
                if not np.linalg.det(h[:-1, :-1]) > 0:
                    fails.append(Failure(where, "class-honesty", "%s of two proper rotations returned a Rotation with determinant %.3g" % (pair, np.linalg.det(h[:-1, :-1]))))
            else:
                self.note("rotation:improper-operand")
        return fails

    def _decompose(self, t, where, what):
        M = _m()
        mt = M["mt"]
        h0 = np.array(t.h_matrix, dtype=float, copy=True)
        parts = t.decompose()
        d = h0.shape[0] - 1
        fails = []
        prod = np.eye(d + 1)
        for p in parts:
            if not isinstance(p, mt.Homogeneous):
                return [Failure(where, "decompose", "%s: decompose() returned a %s" % (what, type(p).__name__))]
            prod = np.asarray(p.h_matrix, dtype=float).dot(prod)
        scale = max(1.0, float(np.abs(h0).max()))
        err = float(np.abs(prod - h0).max())
        self.note("decerr:%s" % _bucket(err / scale))
        det = np.linalg.det(h0[:d, :d])
        self.note("decompose:%d-parts%s" % (len(parts), "-negative-determinant" if det < 0 else ""))
        if not err <= DEC_TOL * scale:
            fails.append(Failure(where, "decompose", "%s: the product of the %d parts %r differs from the matrix by %.3g" % (what, len(parts), [type(p).__name__ for p in parts], err)))
        # the documented way of recomposing: reduce(compose_before)
        c = parts[0]
        for p in parts[1:]:
            c = c.compose_before(p)
        if not isinstance(c, mt.Homogeneous) or not np.abs(np.asarray(c.h_matrix) - h0).max() <= DEC_TOL * scale:
            fails.append(Failure(where, "decompose", "%s: chaining the parts with compose_before gives %r" % (what, getattr(c, "h_matrix", type(c).__name__))))
        if not np.array_equal(np.asarray(t.h_matrix), h0):
            fails.append(Failure(where, "decompose", "%s: decompose() changed the transform" % what))
        return fails

    def check_root(self, st, root):
        mt = _m()["mt"]
        fails = []
        cur = st["cur"]
        self._length = st["length"]
        if isinstance(cur, mt.Homogeneous):
            why = dishonest(cur, self._length)
            if why:
                raise AssertionError("operand letter %r is not honest: %s" % (root, why))
        # the letter itself agrees with its model on the probe points (sanity of the harness, exact law n=1)
        fails.extend(self._map(cur, st["model"], st["X"], "letter", st["letter"], "letter-vs-model"))
        if st["world"] == "dec" or (isinstance(cur, mt.Affine) and st["sched"] == "Q"):
            if isinstance(cur, mt.Affine):
                fails.extend(self._decompose(cur, "decompose", "%s (%d-D)" % (st["letter"], st["d"])))
        return fails

    # ------------------------------------------------------------------ reporting
    def vacuity(self, notes, stats):
        need = [
            "cb:native",
            "cb:chain",
            "ca:native",
            "ca:chain",
            "cbi:accepted",
            "cbi:ValueError",
            "cai:accepted",
            "cai:ValueError",
            "operands:unchanged-checked",
            "operands:earlier-unchanged-checked",
            "honest:Homogeneous",
            "honest:Affine",
            "honest:Similarity",
            "honest:Rotation",
            "honest:Translation",
            "honest:UniformScale",
            "honest:NonUniformScale",
            "rotation:det+1-demanded",
            "inplace-honest:Homogeneous",
            "inplace-honest:Affine",
            "inplace-honest:Similarity",
            "inplace-honest:Rotation",
            "inplace-honest:Translation",
            "inplace-honest:UniformScale",
            "inplace-honest:NonUniformScale",
            "inplace-honest:AlignmentAffine",
            "inplace-honest:AlignmentSimilarity",
            "inplace-honest:AlignmentRotation",
            "inplace-honest:AlignmentTranslation",
            "inplace-honest:AlignmentUniformScale",
            "map:2-maps-with-pwa",
            "map:3-maps-with-pwa",
            "map:4-maps",
            "decompose:4-parts",
            "decompose:4-parts-negative-determinant",
            "decompose:1-parts",
        ]
        need += ["map:big-probe-set"] + ["scale-world:%s" % w for w in S_ROOTS] + ["equivariance:%s" % w for w in POW]
        need += ["operand:%s" % l for l in NEAR_LETTERS + OFFSET_LETTERS + [NEAR_INVERSE]]
        need += ["inplace-receiver:%s" % l for l in OPTION_LETTERS] + ["operand:%s" % l for l in EXTRA_LETTERS]
        need += ["rotation:improper-operand", "refused:dim:ValueError", "refused:obj:ValueError", "held:refused-call", "held:compose-after-refused-call"]
        need += [
            "held:compose-new",
            "held:compose-inplace",
            "held:reparam-set_target",
            "held:reparam-from_vector",
            "held:reparam-compose_inplace",
            "held:compose-new-after-reparametrisation",
            "held:compose-inplace-after-reparametrisation",
        ]
        need.append("program-length:%d" % self.depth())
        out = ["outcome %s never produced" % n for n in need if not notes.get(n)]
        inside = sum(v for k, v in notes.items() if k.startswith("map:") and k.endswith("-with-pwa"))
        if notes.get("map:reference-leaves-pwa-domain", 0) * 20 > inside:
            out.append("more than 5%% of the programs with a piecewise affine member leave its domain (%d vs %d inside)" % (notes.get("map:reference-leaves-pwa-domain", 0), inside))
        if notes.get("map:too-few-probes-left"):
            out.append("a program lost too many probe points near a projective horizon")
        return out

    def rule(self):
        return (
            "breadth-first over compose programs: root = one operand letter, every step composes the transform built so far "
            "with a fresh operand letter through compose_before/compose_after/_inplace (state as receiver or as argument); "
            "every transition runs the real call and appends/prepends the operand maps to the reference list"
        )

    def alphabet_sizes(self):
        return {
            "roots": len(self.roots()),
            "letters_full": {"%s%dd" % k: len(v) for k, v in FULL.items()},
            "letters_reduced": {"%s%dd" % k: len(v) for k, v in REDUCED.items()},
            "methods": len(METHODS),
            "schedules": {s: SCHEDULES[s] for s in self._scheds()},
            "held_operand_letters": len(HOMOG + OPTION_LETTERS),
            "scale_worlds": {w: {"roots_per_dim": len(S_ROOTS[w]), "operand_letters_per_level": [len(l) for l in S_OPS[w]]} for w in S_ROOTS},
            "near_identity_letters": NEAR_LETTERS + [NEAR_INVERSE],
            "option_letters": OPTION_LETTERS,
            "orientation_reversing_letters": REFLECT_LETTERS,
            "refused_call_letters": {"other_dimensionality_level0": len(HOMOG), "other_dimensionality_later": list(REFUSE_DIM_REDUCED), "non_transform_inplace": list(NON_TRANSFORMS)},
            "held_operand_schedules": {s: HELD_SCHEDULES[s] for s in self._held_scheds()},
            "held_operand_partners": list(PARTNERS),
            "decompose_letters": len(DEC_LETTERS),
            "probe_points": 8,
        }

    def assumptions(self):
        return [
            "parameter values: one generic well-conditioned instance per class letter, step and seed (mc.letters) and one near-identity instance in the 'mild' 2-D world; the continuous quantifier is decided on these only",
            "map equality is decided on 8 probe points (a homography is fixed by d+2 points in general position) with tolerance %g x largest intermediate coordinate; probe points closer than %g (relative) to a projective horizon of an intermediate map are dropped" % (TOL, HORIZON),
            "programs whose composition is dimensionally ill-formed (after the 3-D -> 2-D WithDims) are not enabled",
            "class honesty is demanded of the result of a non-in-place call and of the receiver after an ACCEPTED in-place call, whenever both operands are homogeneous and themselves honest (the [interp] of DESIGN.md that excused the in-place variants rested on Translation/Similarity swallowing any Affine in place; that was repaired as D28/D29, every composes_inplace_with is now closed under composition)",
            "refused-call letters: an operand of the other dimensionality is enumerated only where both sides are homogeneous-family transforms (native composition) and a non-transform operand only for the in-place variants; LEFT OUT because the unchanged tree does not refuse them (reported, not loosened): compose_before/compose_after with a non-transform (e.g. Affine.compose_before(None) returns TransformChain([affine, None])) and any mixed-dimensionality composition that goes through the TransformChain fallback or has a TransformChain receiver (TransformChain([affine2d]).compose_before[_inplace](Translation3d) is accepted; it only fails when applied)",
            "option letters: AlignmentSimilarity(rotation=False), AlignmentSimilarity(allow_mirror=True) and AlignmentRotation(allow_mirror=True) (mirror letters fitted to a reflected target, det < 0), TPS kernel R2LogRRBF; copy= / skip_checks= / min_singular_val are not enumerated here (no effect on the map; min_singular_val belongs to C08)",
            "scale worlds: homogeneous-family letters (and chains of them) only; payload magnitudes 2**-20, 2**-30, 2**20 (exact scalings standing for 1e-6, 1e-9, 1e6), common offset 2**20 on probe points and on the sources/targets of AlignmentSimilarity / AlignmentTranslation, near-identity operands with deviation ~1e-6 and ~1e-9, a nearly-inverse Affine (result = identity + ~1e-9), 20 000 probe points; the last row of an Affine is judged relative to the extent of the data (AlignmentAffine leaves rounding noise ~1e-16 / length there, harmless at every scale); LEFT OUT: TPS (documented absolute floor min_singular_val=1e-4 of its system matrix) and PWA at other magnitudes, AlignmentAffine on offset data (its normal equations are ill-conditioned at offset/spread 1e6: not a well-conditioned configuration), decompose() of near-identity or nearly-tied matrices (Scale()'s documented allclose(rtol 1e-5) turns singular values closer than that into one UniformScale)",
            "tolerances are relative: points to %g x the largest coordinate met while evaluating the reference (no absolute floor), matrices to %g x the product of the absolute operand matrices elementwise, class honesty to %g x the linear part, scale equivariance to %g per block" % (TOL, MTOL, HONEST_TOL, EQTOL),
            "held-operand world: the reused operand is one of the 12 homogeneous-family classes or an alignment option letter (all its compositions with the state, its own class and Affine are native, so no chain aliases it); its re-parametrisations are set_target (two targets), from_vector_inplace (one donor vector) and compose_*_inplace; the reference reads its h_matrix after each re-parametrisation; programs of 3 calls, the middle one a re-parametrisation in the quick tier",
            "depth bound on the number of compose calls; levels 2 and 3 of the thorough tier use the reduced 8-letter operand alphabet (level 3 with the state as receiver only)",
        ]


CHECK = C03
