"""C09 - apply() is pure: no history, aliasing or batch-size effects.

State   : ONE live transform + a pool of caller-owned input arrays
              x (7 points), xc = x*(1+1e-7) ("allclose" to x), y (7 unrelated points), s (the first 5 rows of x:
              other shape, same prefix), w (7 points; for piecewise-affine letters a mix of in- and out-of-domain)
          + one PointCloud whose `points` IS the pool array x (built with copy=False) and which owns one
          landmark group (the values y had at the start), + the arrays returned by the latest call.
Ops     : apply(slot) / apply(slot, batch_size=k) / apply(shape[, batch_size=k]) / in-place overwrite of a slot with
          another slot's values / in-place pokes (1 ulp, *(1+1e-7), one row replaced) / scribbling over the arrays
          the previous call returned / apply of a fresh literal with a given in/out-of-domain pattern.
Oracle  : (purity)   every result equals, bitwise, what a TWIN transform - constructed afresh from private copies of
                     the construction parameters, never used before - returns for a private copy of the current
                     input values (batched calls: the twin applied slice by slice and stacked);
          (function) it also equals, to 1e-9, a plain-numpy reference of the transform (independent of menpo's
                     _apply code and of anything that lives in the process);
          (batches)  a batched result equals the twin's unbatched result to 1e-12 (BLAS may round a 1-row product
                     differently from a 7-row one, so not bitwise) and has the same shape;
          (errors)   TriangleContainmentError is raised iff the reference point-in-triangle test puts some point
                     outside every triangle; its mask is a bool vector with one entry per input point, equal to
                     the reference mask;
          (callers)  no pool array, the shape, nor the transform's observable parameters change.
          BooleanImage.constrain_to_pointcloud (roots "M"): the mask equals the per-pixel reference for every batch size.
Roots   : H = histories (depth 3 / 4), B = every batch size 1..9 on 7 points (depth 2), O = every subset pattern of
          outside positions on 5 points x batch sizes None,1..7 (depth 2), M = BooleanImage x pointcloud letters.
Known   : D26 (open) - a TransformChain with a piecewise-affine member, applied with batch_size, raises the error of
          the first failing batch only.  Recognised by `footprint_chain_first_batch` (mask == reference mask of the
          first batch holding an outside point, chain receiver, batched call); any other wrong mask is a violation.
A state is identified with its history (the canonical key contains every apply event together with the pool values
at that moment): the memo of a caching transform is a function of exactly that, so nothing with a different hidden
memo is ever merged.
"""
import hashlib
import itertools

import numpy as np

from mc import letters as LT
from mc.core import Check, Failure
from mc.observe import obs_diff, obs_key, observe

REF_TOL = 1e-9  # reference (different arithmetic) ; measured worst 3e-13 on seeds 0..9 (see assumptions)
BATCH_TOL = 1e-12  # batched vs unbatched twin (same formula, other BLAS kernel); measured worst 9e-16
EDGE_GUARD = 1e-3  # general position: no test point closer than this to any triangle edge line
N = 7
NS = 5
SLOTS = ("x", "xc", "y", "s", "w")
# integer / float32 / "integer + 0.25" versions of x: same shape, other dtype (a memo keyed on a buffer that keeps the dtype
# of the first array it saw would confuse xq with xi)
# "p1": one point; "xr": N rows all equal to that point (sizes at the boundary: a comparison that broadcasts would take
# one for the other)
FORM_SLOTS = ("xi", "xq", "xf", "p1", "xr")


# ------------------------------------------------------------------------------------------------
# plain numpy references
# ------------------------------------------------------------------------------------------------
def _cross(u, v):
    return u[..., 0] * v[..., 1] - u[..., 1] * v[..., 0]


def tri_signed_dists(p, tri):
    """(n_points, 3) signed distances of p to the three edge lines of triangle tri (3,2), oriented so that
    'inside' is non-negative on all three."""
    a, b, c = tri
    out = []
    orient = np.sign(_cross(b - a, c - a))
    for u, v in ((a, b), (b, c), (c, a)):
        e = v - u
        out.append(orient * _cross(e, p - u) / np.sqrt((e ** 2).sum()))
    return np.stack(out, axis=1)


def ref_containment(p, src, trilist):
    """inside[n, t] by the sign test, and the smallest |distance| to any edge line (general position guard)."""
    inside = np.zeros((p.shape[0], len(trilist)), dtype=bool)
    closest = np.inf
    for t, tri in enumerate(trilist):
        d = tri_signed_dists(p, src[tri])
        inside[:, t] = (d >= 0).all(axis=1)
        if d.size:
            closest = min(closest, np.abs(d).min())
    return inside, closest


def ref_pwa(p, src, trilist, tgt):
    inside, _ = ref_containment(p, src, trilist)
    outside = ~inside.any(axis=1)
    if outside.any():
        return ("raise", outside)
    out = np.zeros((p.shape[0], 2))
    for i in range(p.shape[0]):
        t = int(np.nonzero(inside[i])[0][0])
        a, b, c = src[trilist[t]]
        ab = np.linalg.solve(np.stack([b - a, c - a], axis=1), p[i] - a)
        ta, tb, tc = tgt[trilist[t]]
        out[i] = ta + ab[0] * (tb - ta) + ab[1] * (tc - ta)
    return ("ok", out)


def ref_kernel(kind, p, c):
    d = np.sqrt(((p[:, None, :] - c[None, :, :]) ** 2).sum(-1))
    safe = np.where(d == 0, 1.0, d)
    u = d ** 2 * np.log(safe)
    return 2 * u if kind == "R2LogR2RBF" else u


def ref_tps(kind, p, src, tgt):
    n = src.shape[0]
    k = ref_kernel(kind, src, src)
    pm = np.hstack([np.ones((n, 1)), src])
    big = np.zeros((n + 3, n + 3))
    big[:n, :n] = k
    big[:n, n:] = pm
    big[n:, :n] = pm.T
    rhs = np.vstack([tgt, np.zeros((3, 2))])
    coef = np.linalg.solve(big, rhs)
    return np.hstack([np.ones((p.shape[0], 1)), p]).dot(coef[n:]) + ref_kernel(kind, p, src).dot(coef[:n])


def ref_homog(p, h):
    hp = np.hstack([p, np.ones((p.shape[0], 1))]).dot(h.T)
    return hp[:, :-1] / hp[:, -1:]


# ------------------------------------------------------------------------------------------------
# transform letters: a letter is a list of primitives (length > 1 = TransformChain)
# ------------------------------------------------------------------------------------------------
HOMOG_2D = ["Homogeneous", "Affine", "Similarity", "Rotation", "UniformScale", "NonUniformScale", "Translation", "AlignmentAffine", "AlignmentSimilarity", "AlignmentRotation", "AlignmentUniformScale", "AlignmentTranslation"]
HOMOG_3D = ["Homogeneous", "Affine", "Rotation", "AlignmentSimilarity"]
PWA_LETTERS = ["CachedPWA", "PythonPWA", "PiecewiseAffine-delaunay", "Chain-with-CachedPWA"]
MEMO_LETTERS = PWA_LETTERS + ["ThinPlateSplines", "TPS-R2LogRRBF", "R2LogR2RBF", "R2LogRRBF"]
PLAIN_LETTERS = ["%s-2d" % n for n in HOMOG_2D] + ["%s-3d" % n for n in HOMOG_3D] + ["TransformChain-2d", "WithDims-2d", "WithDims-3d"]
ALL_LETTERS = MEMO_LETTERS + PLAIN_LETTERS


def _homog_prim(name, d, seed, salt):
    r = LT.rs(seed, "c09", name, d, salt)
    rot = LT.rotation_matrix(d, seed, ("c09", name, salt))
    t = 0.5 + r.rand(d)
    if name == "Homogeneous":
        h = np.eye(d + 1)
        h[:d, :d] = rot.dot(np.diag(0.8 + 0.6 * r.rand(d))) + 0.1 * r.rand(d, d)
        h[:d, d] = t
        h[d, :d] = 0.01 + 0.02 * r.rand(d)
        return ("h", name, (h,))
    if name == "Affine":
        h = np.eye(d + 1)
        h[:d, :d] = rot.dot(np.diag(0.7 + 0.8 * r.rand(d))) + 0.15 * r.rand(d, d)
        h[:d, d] = t
        return ("h", name, (h,))
    if name == "Similarity":
        h = np.eye(d + 1)
        h[:d, :d] = (0.6 + r.rand()) * rot
        h[:d, d] = t
        return ("h", name, (h,))
    if name == "Rotation":
        return ("h", name, (rot,))
    if name == "UniformScale":
        return ("h", name, (0.6 + r.rand(), d))
    if name == "NonUniformScale":
        return ("h", name, (0.6 + 0.3 * np.arange(1, d + 1) + 0.2 * r.rand(d),))
    if name == "Translation":
        return ("h", name, (t,))
    if name.startswith("Alignment"):
        src = LT.generic_points(5, d, seed, ("c09-al", name, salt))
        a = rot.dot(np.diag(0.8 + 0.5 * r.rand(d))) + 0.1 * r.rand(d, d)
        tgt = src.dot(a.T) + t + 0.05 * r.randn(5, d)
        return ("al", name, (src, tgt))
    raise ValueError(name)


def _make_prim(prim):
    """A FRESH menpo transform from private copies of the construction parameters."""
    import menpo.transform as mt
    from menpo.shape import PointCloud, TriMesh
    from menpo.transform.piecewiseaffine.base import CachedPWA, PythonPWA

    kind, name, args = prim
    if kind == "h":
        return getattr(mt, name)(*[a.copy() if isinstance(a, np.ndarray) else a for a in args])
    if kind == "al":
        return getattr(mt, name)(PointCloud(args[0].copy()), PointCloud(args[1].copy()))
    if kind == "pwa":
        src, tl, tgt = args
        cls = {"CachedPWA": CachedPWA, "PythonPWA": PythonPWA, "PiecewiseAffine": mt.PiecewiseAffine}[name]
        source = PointCloud(src.copy()) if tl is None else TriMesh(src.copy(), tl.copy())
        return cls(source, PointCloud(tgt.copy()))
    if kind == "tps":
        src, tgt = args
        if name == "R2LogR2RBF":  # the default kernel, chosen by the constructor
            return mt.ThinPlateSplines(PointCloud(src.copy()), PointCloud(tgt.copy()))
        return mt.ThinPlateSplines(PointCloud(src.copy()), PointCloud(tgt.copy()), kernel=mt.R2LogRRBF(src.copy()))
    if kind == "rbf":
        return getattr(mt, name)(args[0].copy())
    if kind == "wd":
        return mt.WithDims(list(args[0]))
    raise ValueError(prim)


class Letter(object):
    """payload + factory + reference of one transform letter."""

    def __init__(self, name, seed):
        self.name = name
        self.seed = seed
        self.is_pwa = name in PWA_LETTERS
        self.d = 3 if name.endswith("-3d") else 2
        base = name.rsplit("-", 1)[0] if name in PLAIN_LETTERS else name
        d = self.d
        r = LT.rs(seed, "c09-letter", name)
        if name in ("CachedPWA", "PythonPWA", "PiecewiseAffine-delaunay", "Chain-with-CachedPWA"):
            src, tl = LT.pwa_layout(seed, ("c09", name))
            tgt = src + 0.5 * (r.rand(5, 2) - 0.5)
            if name == "PiecewiseAffine-delaunay":
                pw = ("pwa", "PiecewiseAffine", (src, None, tgt))
            else:
                pw = ("pwa", "CachedPWA" if name.startswith("Chain") else name, (src, tl, tgt))
            if name.startswith("Chain"):
                self.prims = [("h", "Translation", (0.1 + 0.1 * r.rand(2),)), pw, _homog_prim("Affine", 2, seed, "chain")]
            else:
                self.prims = [pw]
        elif name in ("ThinPlateSplines", "TPS-R2LogRRBF", "R2LogR2RBF", "R2LogRRBF"):
            src = LT.generic_points(6, 2, seed, ("c09-tps", name), min_area=LT.MIN_AREA)
            tgt = src + 0.35 * (r.rand(6, 2) - 0.5)
            self.centres = src
            if name == "ThinPlateSplines":
                self.prims = [("tps", "R2LogR2RBF", (src, tgt))]
            elif name == "TPS-R2LogRRBF":
                self.prims = [("tps", "R2LogRRBF", (src, tgt))]
            else:
                self.prims = [("rbf", name, (src,))]
        elif base == "TransformChain":
            self.prims = [_homog_prim("Affine", d, seed, "c1"), _homog_prim("Rotation", d, seed, "c2"), _homog_prim("Homogeneous", d, seed, "c3")]
        elif base == "WithDims":
            self.prims = [("wd", "WithDims", ((1, 0) if d == 2 else (0, 2),))]
        else:
            self.prims = [_homog_prim(base, d, seed, "single")]
        self.chain = len(self.prims) > 1
        # parameters the references need and that only a (fresh, unused) instance can tell
        self.h = {}
        self.tl = {}
        for i, p in enumerate(self.prims):
            if p[0] in ("h", "al"):
                self.h[i] = np.array(_make_prim(p).h_matrix, dtype=float)
            if p[0] == "pwa":
                self.tl[i] = np.array(_make_prim(p).trilist)
        self._payload(r)

    # ---- factory ----
    def make(self):
        import menpo.transform as mt

        ts = [_make_prim(p) for p in self.prims]
        return mt.TransformChain(ts) if self.chain else ts[0]

    # ---- reference ----
    def ref(self, vals):
        cur = np.array(vals, dtype=float)
        for i, p in enumerate(self.prims):
            kind = p[0]
            if kind in ("h", "al"):
                cur = ref_homog(cur, self.h[i])
            elif kind == "pwa":
                res = ref_pwa(cur, p[2][0], self.tl[i], p[2][2])
                if res[0] == "raise":
                    return res
                cur = res[1]
            elif kind == "tps":
                cur = ref_tps(p[1], cur, p[2][0], p[2][1])
            elif kind == "rbf":
                cur = ref_kernel(p[1], cur, p[2][0])
            elif kind == "wd":
                cur = cur[:, list(p[2][0])].copy()
        return ("ok", cur)

    def guard_ok(self, pts):
        """general position: after the leading members of a chain, no point within EDGE_GUARD of an edge line."""
        cur = np.array(pts, dtype=float)
        for i, p in enumerate(self.prims):
            if p[0] == "pwa":
                _, closest = ref_containment(cur, p[2][0], self.tl[i])
                return closest >= EDGE_GUARD
            if p[0] in ("h", "al"):
                cur = ref_homog(cur, self.h[i])
        return True

    # ---- payload ----
    def _draw(self, r, n, where):
        d = self.d
        for _ in range(1000):
            if where == "in":  # strictly inside the square every pwa_layout covers (also after the chain's small shift)
                p = 1.2 + 3.4 * r.rand(n, d)
            elif where == "out":
                p = np.where(r.rand(n, d) < 0.5, -3.0 + 2.5 * r.rand(n, d), 6.5 + 2.5 * r.rand(n, d))
            else:
                p = 0.5 + 5.0 * r.rand(n, d)
            if n > 1:
                dist = np.sqrt(((p[:, None] - p[None]) ** 2).sum(-1)) + np.eye(n) * 1e9
                if dist.min() < 0.3:
                    continue
            if self.guard_ok(p):
                return p
        raise RuntimeError("general-position guard could not be satisfied for %s" % self.name)

    def _payload(self, r):
        inside = "in" if self.is_pwa else "any"
        x = self._draw(r, N, inside)
        y = self._draw(r, N, inside)
        w = self._draw(r, N, inside)
        alt = self._draw(r, 1, inside)[0]
        self.inpts = self._draw(r, NS, inside)
        self.outpts = self._draw(r, NS, "out") if self.is_pwa else None
        if self.is_pwa:
            out = self._draw(r, N, "out")
            for i in (0, 3, 5):  # last row stays inside: a batch of 3 leaves a clean partial last batch
                w[i] = out[i]
        if hasattr(self, "centres"):  # exact hits of kernel centres: the r == 0 branch of the basis functions
            x[0] = self.centres[0]
            y[2] = self.centres[1]
            w[0] = self.centres[2]
            w[6] = self.centres[0]
        # "xi" / "xf": the same points as integer and single-precision arrays (a batched path that allocates its
        # output with the input's dtype would truncate them)
        self.pool0 = {"x": x, "xc": x * (1 + 1e-7), "y": y, "s": x[:NS].copy(), "w": w, "xi": np.round(x).astype(np.int64), "xf": x.astype(np.float32), "xq": np.round(x) + 0.25, "p1": x[:1].copy(), "xr": np.repeat(x[:1], len(x), axis=0)}
        self.alt = alt
        for k, v in self.pool0.items():
            if k != "w" and self.is_pwa and self.ref(v)[0] != "ok":
                raise RuntimeError("payload %s of %s is not inside the domain" % (k, self.name))
        if self.is_pwa:
            res = self.ref(w)
            if res[0] != "raise" or list(np.nonzero(res[1])[0]) != [0, 3, 5]:
                raise RuntimeError("payload w of %s does not have the intended outside pattern" % self.name)

    def pattern_points(self, pattern):
        return np.array([self.outpts[i] if (pattern >> i) & 1 else self.inpts[i] for i in range(NS)])


# ------------------------------------------------------------------------------------------------
# BooleanImage letters
# ------------------------------------------------------------------------------------------------
IMG_SHAPE = (6, 7)
M_CLOUDS = {
    "triangle-pointcloud": (3, None),
    "convex-quad-pointcloud": (4, None),
    "bowtie-trimesh": (5, ((0, 1, 4), (2, 3, 4))),
    "fan-trimesh": (5, ((0, 1, 4), (1, 2, 4), (2, 3, 4))),
}
M_IMAGES = ("all-true", "seeded")


def m_payload(img, cloud, seed):
    n, tl = M_CLOUDS[cloud]
    r = LT.rs(seed, "c09-bool", img, cloud)
    hi = np.array(IMG_SHAPE) - 1.0
    grid = np.array(list(itertools.product(range(IMG_SHAPE[0]), range(IMG_SHAPE[1]))), dtype=float)
    for _ in range(10000):
        if n == 3:
            p = np.array([[0.2, 0.3], [0.4, 5.6], [4.7, 2.9]]) + 0.25 * r.rand(3, 2)
        elif n == 4:
            p = np.array([[0.3, 0.4], [0.2, 5.4], [4.5, 5.5], [4.4, 0.3]]) + 0.3 * r.rand(4, 2)
        else:
            p = np.array([[0.2, 0.3], [0.3, 5.5], [4.6, 5.4], [4.5, 0.4], [2.4, 3.0]]) + 0.3 * r.rand(5, 2)
        if p.min() < 0 or (p > hi).any():
            continue
        if tl is None:
            from scipy.spatial import Delaunay

            tris = np.array(Delaunay(p).simplices) if n > 3 else np.array([[0, 1, 2]])
        else:
            tris = np.array(tl)
        inside, closest = ref_containment(grid, p, tris)
        if closest >= EDGE_GUARD:
            mask = inside.any(axis=1).reshape(IMG_SHAPE)
            break
    else:
        raise RuntimeError("guard")
    if img == "all-true":
        px = np.ones(IMG_SHAPE, dtype=bool)
    else:
        px = r.rand(*IMG_SHAPE) > 0.4
        px[0, 0] = True
        px[-1, -1] = False
    lo = np.floor(p.min(axis=0)).astype(int)
    hb = np.floor(p.max(axis=0)).astype(int)
    n_bbox = int(np.prod(hb - lo + 1))
    return {"points": p, "trilist": None if tl is None else np.array(tl), "pixels": px, "mask": mask, "n_bbox": n_bbox}


H_OPS = (
    [("apply", s) for s in SLOTS + FORM_SLOTS]
    + [("applyb", "x", 1), ("applyb", "x", 3), ("applyb", "x", 7), ("applyb", "x", 9), ("applyb", "y", 3), ("applyb", "w", 3)]
    + [("shape", None), ("shape", 3)]
    + [("copy", "x", "y"), ("copy", "x", "xc"), ("copy", "xc", "x"), ("copy", "y", "x"), ("copy", "x", "w"), ("copy", "w", "x")]
    + [("poke", "x", "ulp"), ("poke", "x", "close"), ("poke", "x", "row"), ("poke", "y", "row")]
    + [("scribble",)]
)
# last level of a depth-3 (quick) / depth-4 (thorough, memo letters) history: only calls - an edit or a scribble with
# nothing applied after it decides nothing
H_OPS_LAST = [o for o in H_OPS if o[0] in ("apply", "applyb", "shape")]
B_OPS = (
    [("applyb", s, k) for s in ("x", "y") for k in range(1, 10)]
    + [("shape", k) for k in range(1, 10)]
    + [("apply", "x"), ("applyb", "s", 2), ("applyb", "s", 5), ("applyb", "s", 6)]
    + [("apply", "xi"), ("apply", "xf")]
    + [("applyb", s, k) for s in ("xi", "xf") for k in (1, 2, 3, 7, 9)]
)
O_KS = (None, 1, 2, 3, 4, 5, 6, 7)
O_OPS = [("pat", p, k) for p in range(32) for k in O_KS] + [("patshape", p, k) for p in range(32) for k in (None, 2)]
O_OPS_SMALL = [("pat", p, k) for p in (0, 31, 1, 16, 10) for k in (None, 2, 3)] + [("patshape", p, None) for p in (0, 1, 16)]


def footprint_chain_first_batch(L, k, mask_ref, m):
    """Footprint of the open finding D26 (the generic Transform._apply_batched lets the error of the first failing
    batch escape): the receiver is a TransformChain (not itself a piecewise-affine transform) with a piecewise-affine
    member, the call was batched, an error was raised, and its mask is exactly the reference mask restricted to
    the first batch that contains an outside point (so its length is that batch's size).  Anything else - another
    length, another content, a PWA receiver - is not this defect and stays an untagged failure."""
    if not (L.chain and any(p[0] == "pwa" for p in L.prims)) or k is None:
        return None
    if not isinstance(m, np.ndarray) or m.dtype != bool or m.ndim != 1:
        return None
    for lo in range(0, mask_ref.shape[0], k):
        part = mask_ref[lo : lo + k]
        if part.any():
            return "D26" if (m.shape == part.shape and np.array_equal(m, part)) else None
    return None


def _digest(*parts):
    h = hashlib.blake2b(digest_size=12)
    for p in parts:
        h.update(p if isinstance(p, bytes) else repr(p).encode())
    return h.digest()


def _bucket(err):
    if err == 0:
        return "exact"
    return "<=1e%d" % int(np.ceil(np.log10(err)))


def _maxabs(a, b):
    if a.shape != b.shape:
        return float("inf")
    if a.size == 0:
        return 0.0
    return float(np.max(np.abs(a - b)))


class C09(Check):
    id = "C09"
    title = "apply() is pure: no history, aliasing or batch-size effects"

    def __init__(self, tier, seed):
        super(C09, self).__init__(tier, seed)
        self._letters = {}
        self._memo = {}
        self._mpay = {}

    # ------------------------------------------------------------------ scope
    def depth(self):
        return 3 if self.tier == "quick" else 4

    def _hdepth(self, name):
        # thorough: depth 4 for the letters that memoise or share state (PWA family, TPS, basis functions),
        # depth 3 with the full alphabet on every level for the stateless homogeneous family
        if self.tier == "thorough" and name not in MEMO_LETTERS:
            return 3
        return self.depth()

    def roots(self):
        out = []
        hs = 1 if self.tier == "quick" else 6
        for name in ALL_LETTERS:
            for s in range(hs):
                out.append(("H", name, s, hs))
        for name in ALL_LETTERS:
            out.append(("B", name, 0, 1))
        osh = 1 if self.tier == "quick" else 4
        for name in PWA_LETTERS:
            for s in range(osh):
                out.append(("O", name, s, osh))
        for img in M_IMAGES:
            for cloud in sorted(M_CLOUDS):
                out.append(("M", img + "/" + cloud, 0, 1))
        return out

    def letter(self, name):
        if name not in self._letters:
            self._letters[name] = Letter(name, self.seed)
        return self._letters[name]

    # ------------------------------------------------------------------ state
    def build(self, root):
        kind, name = root[0], root[1]
        if kind == "M":
            return self._build_m(root)
        from menpo.shape import PointCloud

        L = self.letter(name)
        pool = {k: v.copy() for k, v in L.pool0.items()}
        shape = PointCloud(pool["x"], copy=False)
        shape.landmarks["g"] = PointCloud(L.pool0["y"].copy())
        T = L.make()
        st = {
            "kind": kind,
            "root": root,
            "L": L,
            "T": T,
            "pool": pool,
            "model": {k: v.copy() for k, v in L.pool0.items()},
            "lm": L.pool0["y"].copy(),
            "shape": shape,
            "last": [],
            "events": [],
            "prev": None,
            "applied": {},
            "t_obs": observe(T, probe=False),
        }
        if shape.points is not pool["x"]:
            raise RuntimeError("harness: PointCloud(copy=False) did not alias the pool array")
        return st

    def _pool_digest(self, st):
        return _digest(*[st["model"][k].tobytes() for k in SLOTS])

    def canon(self, st):
        if st["kind"] == "M":
            return _digest(st["events"], obs_key(observe(st["img"])), obs_key(observe(st["cloud"])))
        return _digest(st["events"], self._pool_digest(st), obs_key(observe(st["T"], probe=False)))

    # ------------------------------------------------------------------ alphabet
    def ops(self, st, level):
        kind = st["kind"]
        root = st["root"]
        if kind == "M":
            if level >= (1 if self.tier == "quick" else 2):
                return []
            ks = [None] + list(range(1, st["pay"]["n_bbox"] + 3))
            return [("constrain", k) for k in ks] + [("constrain_lm", k) for k in (None, 1, 4)]
        if kind == "H":
            if level >= self._hdepth(root[1]):
                return []
            last = level == self.depth() - 1  # (the last level of a depth-3 letter in the thorough tier keeps the full alphabet)
            out = list(H_OPS_LAST if last else H_OPS)
        elif kind == "B":
            if level >= 2:
                return []
            out = list(B_OPS)
        else:
            if level >= 2:
                return []
            out = list(O_OPS if (level == 0 or self.tier == "thorough") else O_OPS_SMALL)
        if level == 0 and root[3] > 1:
            out = [o for i, o in enumerate(out) if i % root[3] == root[2]]
        return out

    # ------------------------------------------------------------------ expectations
    def expect(self, L, vals, k):
        """what a fresh twin and the numpy reference say for these input values (memoised on the values: every
        entry was computed by a twin that was constructed for it and never used for anything else)."""
        from menpo.transform.piecewiseaffine import TriangleContainmentError

        key = (L.name, k, vals.shape, vals.tobytes())
        e = self._memo.get(key)
        if e is not None:
            return e
        e = {}
        try:
            e["unb"] = ("ok", L.make().apply(vals.copy()))
        except TriangleContainmentError as exc:
            e["unb"] = ("raise", np.array(exc.points_outside_source_domain))
        if k is None or e["unb"][0] == "raise":
            e["twin"] = e["unb"]
        else:
            parts = [L.make().apply(vals[lo : lo + k].copy()) for lo in range(0, vals.shape[0], k)]
            e["twin"] = ("ok", np.vstack(parts))
        e["ref"] = L.ref(vals)
        if len(self._memo) > 200000:
            self._memo.clear()
        self._memo[key] = e
        return e

    # ------------------------------------------------------------------ step
    def apply(self, st, op, verify=True):
        if st["kind"] == "M":
            return self._apply_m(st, op, verify)
        kind = op[0]
        L = st["L"]
        fails = []
        if kind in ("copy", "poke"):
            slot = op[1]
            if kind == "copy":
                st["pool"][slot][...] = st["pool"][op[2]]
                st["model"][slot][...] = st["model"][op[2]]
            elif op[2] == "ulp":
                st["pool"][slot][0, 0] = np.nextafter(st["pool"][slot][0, 0], np.inf)
                st["model"][slot][0, 0] = np.nextafter(st["model"][slot][0, 0], np.inf)
            elif op[2] == "close":
                st["pool"][slot] *= 1 + 1e-7
                st["model"][slot] *= 1 + 1e-7
            else:
                st["pool"][slot][-1] = L.alt
                st["model"][slot][-1] = L.alt
            if verify:
                self.note("%s:done" % kind)
                fails.extend(self._bystanders(st, kind))
            return fails
        if kind == "scribble":
            wrote = 0
            for arr in st["last"]:
                if isinstance(arr, np.ndarray) and arr.flags.writeable and arr.size:
                    arr[...] = -7.25
                    wrote += 1
            aliased = False
            for k in SLOTS:
                if not np.array_equal(st["pool"][k], st["model"][k]):
                    # the returned array IS the caller's array: the harness itself has just edited the pool
                    aliased = True
                    st["model"][k] = st["pool"][k].copy()
            st["events"].append((op, wrote, self._pool_digest(st)))
            if verify:
                self.note("scribble:%s" % ("aliased-a-pool-array" if aliased else "wrote" if wrote else "nothing-to-write"))
                fails.extend(self._bystanders(st, kind))
            return fails
        return self._apply_call(st, op, verify)

    def _apply_call(self, st, op, verify):
        from menpo.shape import PointCloud
        from menpo.transform.piecewiseaffine import TriangleContainmentError

        kind = op[0]
        L = st["L"]
        T = st["T"]
        where = "%s/%s" % (kind, L.name)
        fails = []
        as_shape = kind in ("shape", "patshape")
        if kind == "apply":
            slot, k = op[1], None
        elif kind == "applyb":
            slot, k = op[1], op[2]
        elif kind == "shape":
            slot, k = "x", op[1]
        else:
            slot, k = None, op[2]
        if slot is not None:
            vals = st["model"][slot]
            arg_arr = st["pool"][slot]
            arg = st["shape"] if as_shape else arg_arr
        else:
            vals = L.pattern_points(op[1])
            arg_arr = vals.copy()
            arg = PointCloud(arg_arr, copy=False) if as_shape else arg_arr
        st["events"].append((op, self._pool_digest(st)))
        kw = {} if k is None else {"batch_size": k}
        try:
            got = ("ok", T.apply(arg, **kw))
        except TriangleContainmentError as exc:
            got = ("raise", exc.points_outside_source_domain)
        except Exception as exc:  # nothing else is a legitimate outcome of apply on these inputs: reported, never hidden
            got = ("error", exc)
        # ---- bookkeeping that later ops use
        if got[0] == "ok":
            if as_shape:
                res = got[1]
                st["last"] = [res.points] + ([res.landmarks["g"].points] if res.has_landmarks else [])
            else:
                st["last"] = [got[1]]
        else:
            st["last"] = []
        prev = st["prev"]
        got_pts = (got[1].points if as_shape else got[1]) if got[0] == "ok" else None
        st["prev"] = (vals.copy(), got_pts.copy(), slot) if isinstance(got_pts, np.ndarray) else None
        applied_before = st["applied"].get(slot) if slot is not None else None
        if slot is not None:
            st["applied"][slot] = vals.copy()
        if not verify:
            return fails
        if got[0] == "error":
            import traceback

            exc = got[1]
            self.note("%s:unexpected-exception" % kind)
            tb = "".join(traceback.format_exception(type(exc), exc, exc.__traceback__))[-900:]
            return [Failure(where, "unexpected-exception", "%s after %s: %s: %s\n%s" % (op, self._hist(st), type(exc).__name__, exc, tb))]

        # ---- oracle
        e = self.expect(L, vals, k)
        twin, ref, unb = e["twin"], e["ref"], e["unb"]
        n = vals.shape[0]
        tag = kind
        if twin[0] != ref[0]:
            fails.append(Failure(where, "raised-iff-outside", "fresh twin %s but the reference point-in-triangle test says %s (outside=%s)" % (twin[0], ref[0], ref[1] if ref[0] == "raise" else "none")))
        if ref[0] == "raise":
            # ---------------- an error is expected
            mask_ref = ref[1]
            self.note("%s:raised-containment" % tag)
            if mask_ref.all():
                self.note("%s:all-points-outside" % tag)
            if k is not None and n % k and not mask_ref[n - n % k :].any():
                self.note("%s:raised-with-clean-partial-last-batch" % tag)
            if got[0] != "raise":
                fails.append(Failure(where, "raised-iff-outside", "points %s are outside the domain but apply returned a value" % np.nonzero(mask_ref)[0].tolist()))
            else:
                m = got[1]
                if not isinstance(m, np.ndarray) or m.dtype != bool or m.shape != (n,):
                    fails.append(
                        Failure(
                            where,
                            "containment-mask-once-per-point",
                            "batch_size=%r: %d input points, mask of %s %s shape %s; expected outside=%s got %s"
                            % (k, n, type(m).__name__, getattr(m, "dtype", "?"), getattr(m, "shape", "?"), mask_ref.astype(int).tolist(), np.asarray(m).astype(int).tolist()),
                            finding=footprint_chain_first_batch(L, k, mask_ref, m),
                        )
                    )
                elif not np.array_equal(m, mask_ref):
                    fails.append(Failure(where, "containment-mask", "batch_size=%r expected outside=%s got %s" % (k, mask_ref.astype(int).tolist(), m.astype(int).tolist())))
                if twin[0] == "raise" and isinstance(m, np.ndarray) and m.shape == twin[1].shape and not np.array_equal(m, twin[1]):
                    fails.append(Failure(where, "history-dependent-result", "mask differs from the mask a fresh twin reports"))
        else:
            # ---------------- a value is expected
            if got[0] == "raise":
                self.note("%s:unexpected-raise" % tag)
                fails.append(Failure(where, "raised-iff-outside", "all %d points are inside the domain but TriangleContainmentError(outside=%s) was raised" % (n, np.asarray(got[1]).astype(int).tolist())))
            else:
                self.note("%s:ok" % tag)
                if as_shape:
                    res = got[1]
                    pts = res.points
                    if type(res) is not type(arg):
                        fails.append(Failure(where, "history-dependent-result", "apply(shape) returned %s" % type(res).__name__))
                    if slot is not None:
                        el = self.expect(L, st["lm"], k)
                        lm_got = res.landmarks["g"].points if res.has_landmarks and "g" in res.landmarks else None
                        if el["twin"][0] != "ok" or lm_got is None or not self._same(lm_got, el["twin"][1]):
                            fails.append(Failure(where, "history-dependent-result", "landmarks of the transformed shape differ from a fresh twin applied to the landmark points"))
                else:
                    pts = got[1]
                if not isinstance(pts, np.ndarray):
                    fails.append(Failure(where, "history-dependent-result", "apply returned %s" % type(pts).__name__))
                elif twin[0] == "ok":
                    if not self._same(pts, twin[1]):
                        fails.append(Failure(where, "history-dependent-result", "%s after %s: differs from a fresh twin on the same values (max abs %.3g; shapes %s vs %s)" % (op, self._hist(st), _maxabs(pts, twin[1]), pts.shape, twin[1].shape)))
                    err = _maxabs(pts, ref[1])
                    if not err <= REF_TOL * max(1.0, float(np.abs(ref[1]).max()) if ref[1].size else 1.0):
                        fails.append(Failure(where, "result-is-a-function-of-parameters-and-input", "%s after %s: differs from the numpy reference by %.3g" % (op, self._hist(st), err)))
                    else:
                        self.note("reference-error:%s" % _bucket(err))
                    if k is not None:
                        self.note("%s:%s" % (tag, "one-batch" if k == n else "beyond-n" if k > n else "divides-n" if n % k == 0 else "does-not-divide-n"))
                        errb = _maxabs(pts, unb[1])
                        if not errb <= BATCH_TOL * max(1.0, float(np.abs(unb[1]).max()) if unb[1].size else 1.0):
                            fails.append(Failure(where, "batched-equals-unbatched", "batch_size=%d on %d points: shape %s vs %s, max abs difference %.3g" % (k, n, pts.shape, unb[1].shape, errb)))
                        else:
                            self.note("batched-vs-unbatched-error:%s" % _bucket(errb))
                    # ---- what made this step interesting (vacuity guards)
                    if prev is not None and prev[0].shape == vals.shape and not np.array_equal(prev[0], vals) and np.allclose(prev[0], vals):
                        if prev[1].shape == twin[1].shape and not np.array_equal(prev[1], twin[1]):
                            self.note("apply:close-to-previous-input-but-different-result")
                    if applied_before is not None and not np.array_equal(applied_before, vals):
                        self.note("apply:same-array-object-edited-since-its-last-use")
                    if prev is not None and prev[2] is not None and prev[2] != slot and prev[0].shape == vals.shape and np.array_equal(prev[0], vals):
                        self.note("apply:other-array-object-with-equal-values")
        fails.extend(self._bystanders(st, kind))
        if slot is None and not np.array_equal(arg_arr, vals):
            fails.append(Failure(where, "caller-array-written", "the literal passed to apply was modified"))
        return fails

    @staticmethod
    def _same(a, b):
        return isinstance(a, np.ndarray) and a.shape == b.shape and a.dtype == b.dtype and np.array_equal(a, b)

    @staticmethod
    def _hist(st):
        return [e[0] for e in st["events"][:-1]]

    def _bystanders(self, st, kind):
        """no caller array, the shape nor the transform's parameters may have changed."""
        fails = []
        where = "%s/%s" % (kind, st["L"].name)
        for k in SLOTS:
            if not np.array_equal(st["pool"][k], st["model"][k]):
                fails.append(Failure(where, "caller-array-written", "pool array %s changed (max abs %.3g)" % (k, _maxabs(st["pool"][k], st["model"][k]))))
        sh = st["shape"]
        if sh.points is not st["pool"]["x"] or list(sh.landmarks.keys()) != ["g"] or not np.array_equal(sh.landmarks["g"].points, st["lm"]):
            fails.append(Failure(where, "shape-input-changed", "the PointCloud passed to apply no longer holds its points / landmarks"))
        d = obs_diff(st["t_obs"], observe(st["T"], probe=False))
        if d is not None:
            fails.append(Failure(where, "transform-parameters-changed", d))
        return fails

    # ------------------------------------------------------------------ BooleanImage roots
    def _build_m(self, root):
        from menpo.image import BooleanImage
        from menpo.shape import PointCloud, TriMesh

        img, cloud = root[1].split("/")
        key = (img, cloud)
        if key not in self._mpay:
            self._mpay[key] = m_payload(img, cloud, self.seed)
        pay = self._mpay[key]
        pc = PointCloud(pay["points"].copy()) if pay["trilist"] is None else TriMesh(pay["points"].copy(), pay["trilist"].copy())
        im = BooleanImage(pay["pixels"].copy())
        im.landmarks["lm"] = pc.copy()
        st = {"kind": "M", "root": root, "pay": pay, "img": im, "cloud": pc, "events": []}
        st["img_obs"] = observe(im)
        st["cloud_obs"] = observe(pc)
        return st

    def _apply_m(self, st, op, verify):
        kind, k = op
        st["events"].append(op)
        im = st["img"]
        if kind == "constrain":
            res = im.constrain_to_pointcloud(st["cloud"], batch_size=k)
        else:
            res = im.constrain_to_landmarks("lm", batch_size=k)
        if not verify:
            return []
        fails = []
        where = "%s/%s" % (kind, st["root"][1].split("/")[1])
        pay = st["pay"]
        got = res.pixels[0] if res.pixels.ndim == 3 else res.pixels
        nb = pay["n_bbox"]
        self.note("%s:%s" % (kind, "unbatched" if k is None else "beyond-n" if k > nb else "one-batch" if k == nb else "divides-n" if nb % k == 0 else "does-not-divide-n"))
        if pay["mask"].any() and not pay["mask"].all():
            self.note("constrain:pixels-inside-and-outside")
        if got.shape != pay["mask"].shape or got.dtype != bool or not np.array_equal(got, pay["mask"]):
            fails.append(Failure(where, "mask-independent-of-batch-size", "batch_size=%r (%d pixels in the bounding box): %d pixels differ from the per-pixel point-in-triangle reference" % (k, nb, int((got != pay["mask"]).sum()) if got.shape == pay["mask"].shape else -1)))
        if res is im:
            fails.append(Failure(where, "caller-array-written", "constrain returned its receiver"))
        d = obs_diff(st["img_obs"], observe(im)) or obs_diff(st["cloud_obs"], observe(st["cloud"]))
        if d is not None:
            fails.append(Failure(where, "caller-array-written", "image / pointcloud changed: %s" % d))
        return fails

    # ------------------------------------------------------------------ reporting
    def vacuity(self, notes, stats):
        need = [
            "apply:ok",
            "apply:raised-containment",
            "applyb:raised-containment",
            "applyb:raised-with-clean-partial-last-batch",
            "applyb:does-not-divide-n",
            "applyb:divides-n",
            "applyb:beyond-n",
            "applyb:one-batch",
            "shape:ok",
            "shape:raised-containment",
            "shape:does-not-divide-n",
            "apply:close-to-previous-input-but-different-result",
            "apply:same-array-object-edited-since-its-last-use",
            "apply:other-array-object-with-equal-values",
            "scribble:wrote",
            "copy:done",
            "poke:done",
            "pat:ok",
            "pat:raised-containment",
            "pat:all-points-outside",
            "pat:raised-with-clean-partial-last-batch",
            "patshape:raised-containment",
            "patshape:ok",
            "constrain:does-not-divide-n",
            "constrain:beyond-n",
            "constrain:unbatched",
            "constrain:pixels-inside-and-outside",
            "constrain_lm:unbatched",
        ]
        out = ["outcome %s never produced" % n for n in need if not notes.get(n)]
        return out

    def rule(self):
        return (
            "breadth-first over all histories of apply / batched apply / apply(shape) / in-place edits of caller arrays / "
            "scribbling on returned arrays on one live transform per root; a state is its history (apply events with the pool "
            "values at that time); every call is compared with a freshly constructed twin (bitwise), a numpy reference, "
            "the unbatched result and an independent point-in-triangle mask"
        )

    def alphabet_sizes(self):
        return {
            "transform_letters": len(ALL_LETTERS),
            "letters_with_memo_or_shared_state_risk": len(MEMO_LETTERS),
            "history_ops": len(H_OPS),
            "history_ops_last_level": len(H_OPS_LAST),
            "batch_ops": len(B_OPS),
            "outside_pattern_ops": len(O_OPS),
            "outside_pattern_ops_second_level": len(O_OPS if self.tier == "thorough" else O_OPS_SMALL),
            "boolean_image_roots": len(M_IMAGES) * len(M_CLOUDS),
            "roots": len(self.roots()),
        }

    def assumptions(self):
        return [
            "pool: 7-point arrays x, x*(1+1e-7), y, w, the 5-row prefix s of x; the shape aliases x (copy=False) and owns one landmark group",
            "general position: no test point / pixel closer than %g to any source-triangle edge line; in-domain points lie in [1.2,4.6]^2, out-of-domain points at least 1.2 outside the hull" % EDGE_GUARD,
            "numpy reference tolerance %g (relative to max |value|); batched-vs-unbatched tolerance %g; twin comparison is bitwise" % (REF_TOL, BATCH_TOL),
            "thin-plate-spline letters: 6 landmarks with minimum pairwise distance %g and triangle area %g (well-conditioned system)" % (LT.MIN_DIST, LT.MIN_AREA),
            "batch sizes 1..9 on 7 points, None and 1..7 on 5 points with all 32 outside patterns; batch_size 0 / negative are outside the property",
            "history depth %d (thorough: 4 for the %d letters that memoise or share state, 3 with the full alphabet on every level for the stateless homogeneous family); the last level of the deepest histories holds calls only (an edit with nothing after it decides nothing)" % (self.depth(), len(MEMO_LETTERS)),
            "a twin shares process-global state with the transform under test; the numpy reference (tolerance above) is what decides against module-level scratch state",
            "a state whose step hit the open finding D26 (chain letter, batched call on the mixed array w) is not expanded further",
        ]


CHECK = C09
