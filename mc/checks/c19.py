"""C19 - lazy lists are faithful and truly lazy under every combination of operations.

State   : a pool of live LazyLists (two instrumented base lists + everything derived so far) and, for
          each, the reference model = a plain Python list of expression trees.
Ops     : map / per-element map / slice / fancy index / repeat / + / copy  (constructing) and
          integer index / numpy-integer index / len / iteration (reading).
Oracle  : constructing ops evaluate nothing (evaluation log unchanged) and give a list whose length
          and expression list equal what the same op gives on the plain list; every previously live list
          is unchanged; reading element i returns the value of expression i and logs exactly the
          evaluations that expression depends on, in order.
"""
import numpy as np

from mc.core import Check, Failure

MAXLEN = 8


RAISERS = {"TypeError": TypeError, "KeyError": KeyError, "ValueError": ValueError}


class RefRaise(Exception):
    """the reference evaluation of an element ends in an exception of class RAISERS[name] carrying `token`"""

    def __init__(self, name, token):
        Exception.__init__(self, name, token)
        self.name, self.token = name, token


def ev(expr, log):
    """Reference evaluation of an expression tree; appends what must be evaluated, in order."""
    tag = expr[0]
    if tag == "b":
        log.append(expr)
        return expr
    if tag == "x":
        # a base element whose callable fails: ('x', bid, i, exception name)
        log.append(expr)
        raise RefRaise(expr[3], ("verif-x", expr[1], expr[2]))
    if tag in ("p", "v"):
        return expr
    # ('m', fname, inner)
    inner = ev(expr[2], log)
    log.append(("call", expr[1], inner))
    if expr[1] == "h":
        # the mapped function h always fails (after having been called)
        raise RefRaise("TypeError", ("verif-h", inner))
    return (expr[1], inner)


def ref_read(expr):
    """(value, RefRaise or None, evaluations) of reading one element of the model"""
    log = []
    try:
        return ev(expr, log), None, log
    except RefRaise as r:
        return None, r, log


def srepr(v):
    """repr that cannot fail (a wrongly returned object may not even have a working __repr__)"""
    try:
        return repr(v)
    except Exception as e:  # noqa
        return "<%s whose repr raises %s>" % (type(v).__name__, type(e).__name__)


def same_failure(exc, ref_exc):
    return exc is not None and type(exc) is RAISERS[ref_exc.name] and exc.args == (ref_exc.token,)


class C19(Check):
    id = "C19"
    title = "lazy lists are faithful and truly lazy"

    def depth(self):
        return 3 if self.tier == "quick" else 4  # (the list-algebra schedule Q stops at 2; video read histories go to 3)

    def roots(self):
        # lengths of the two instrumented base lists
        base = [(0, 2), (1, 2), (2, 2), (3, 2), (3, 0), (4, 1)]
        shards = 1 if self.tier == "quick" else 6
        # (len base 0, len base 1, shard, n_shards): the level-0 alphabet is split over shards for parallelism
        # last field: alphabet schedule (A: wide and shallow, B: narrow and deep) - thorough explores both
        scheds = ["Q"] if self.tier == "quick" else ["A", "B"]
        out = [b + (s, shards, c) for c in scheds for b in base for s in range(shards)]
        # base lists some of whose elements FAIL when evaluated (an ordinary list of failing thunks behaves the same way:
        # reading the element raises exactly that exception, nothing else is affected, constructing ops never notice)
        out += [b + (s, shards, c, "raisers") for c in scheds for b in [(4, 1), (2, 2)] for s in range(shards)]
        # one LONG base list (more elements than any small-integer or small-container fast path covers), short alphabet
        out.append((300, 0, 0, 1, "L"))
        # video-backed lazy lists (menpo.io.input.video) read through a fake ffmpeg process: here reading is stateful
        # (the reader keeps a pipe and a position), so every SEQUENCE of reads is a distinct state
        n_frames = 6 if self.tier == "quick" else 7
        for first in range(n_frames):
            out.append(("video", n_frames, first))
        return out

    # ------------------------------------------------------------------ state
    def build(self, root):
        from menpo.base import LazyList

        if root[0] == "video":
            return self._build_video(root)

        log = []
        st = {"log": log, "lists": [], "model": [], "funcs": {}}

        def mk_f(name):
            def f(x):
                log.append(("call", name, x))
                return (name, x)

            f.__name__ = name
            return f

        st["funcs"] = {"f": mk_f("f"), "g": mk_f("g")}

        def mk_h():
            def h(x):
                log.append(("call", "h", x))
                raise TypeError(("verif-h", x))

            return h

        raisers = len(root) > 5 and root[5] == "raisers"
        st["raisers"] = raisers

        def base_expr(bid, i):
            if raisers and bid == 0 and i % 2 == 1:
                return ("x", bid, i, "TypeError" if i == 1 else "KeyError")
            return ("b", bid, i)

        def base_callable(bid, i):
            e = base_expr(bid, i)

            def c():
                log.append(e)
                if e[0] == "x":
                    raise RAISERS[e[3]](("verif-x", bid, i))
                return e

            return c

        st["funcs"]["h"] = mk_h()
        st["shard"] = (root[2], root[3])
        st["sched"] = root[4]
        def index_f(bid):
            def f(i):
                log.append(("b", bid, i))
                return ("b", bid, i)

            return f

        for bid, n in enumerate(root[:2]):
            if bid == 0:
                ll = LazyList([base_callable(bid, i) for i in range(n)])
            elif root[0] % 2 == 0:
                # the public constructors are part of the alphabet too
                ll = LazyList.init_from_index_callable(index_f(bid), n)
            else:
                ll = LazyList.init_from_iterable(list(range(n)), f=index_f(bid))
            st["lists"].append(ll)
            st["model"].append(tuple(base_expr(bid, i) for i in range(n)))
        # a base list built through the public class constructor from an index callable

        return st

    # ------------------------------------------------------------------ video-backed lists
    VH, VW, VFPS = 2, 3, 5.0

    def _build_video(self, root):
        import io
        import types
        from pathlib import Path

        import menpo.io.input.video as mvideo

        n = root[1]
        H, W, FPS = self.VH, self.VW, self.VFPS
        stats = {"spawned": 0}

        class FakeFFmpeg(object):
            """what the reader can see of `ffmpeg [-ss t] -i file ... -`: frame k is filled with the value k, -ss opens at
            frame round(t * fps), the process stays alive so forward reads keep streaming from the same pipe"""

            def __init__(self, command, **kwargs):
                stats["spawned"] += 1
                start = 0
                if "-ss" in command:
                    start = int(round(float(command[command.index("-ss") + 1]) * FPS))
                data = b"".join(np.full(H * W * 3, k, dtype=np.uint8).tobytes() for k in range(start, n))
                self.stdout = io.BytesIO(data)
                self.stderr = None
                self.stdin = None

            def poll(self):
                return None

        # the seam is the operating-system process: the module's `sp` (subprocess) and the ffprobe query
        mvideo.sp = types.SimpleNamespace(Popen=FakeFFmpeg, PIPE=-1, DEVNULL=-3, STDOUT=-2)
        mvideo.video_infos_ffprobe = lambda fp: {"duration": n / FPS, "width": W, "height": H, "n_frames": n, "fps": FPS}
        ll = mvideo.ffmpeg_importer(Path("fake_video.avi"), normalize=False)
        f = lambda im: ("f", im)  # noqa
        lists = [ll, ll[::2], ll.map(f), ll.repeat(2), ll[[n - 1, 0, n - 1]], ll + ll[1:3]]
        base = [("v", i) for i in range(n)]
        model = [tuple(base), tuple(base[::2]), tuple(("m", "f", e) for e in base), tuple(e for e in base for _ in range(2)), (base[n - 1], base[0], base[n - 1]), tuple(base) + tuple(base[1:3])]
        st = {"video": True, "lists": lists, "model": model, "history": (), "n": n, "stats": stats, "log": [], "first": root[2]}
        # the root's third field is the first read (splits the work over workers)
        return st

    @staticmethod
    def _norm(v):
        """frames come back as menpo Images: reduce them to ('v', k)"""
        if isinstance(v, tuple):
            return tuple(C19._norm(x) for x in v)
        px = getattr(v, "pixels", None)
        if px is None:
            return v
        a = np.asarray(px)
        if a.size == 0 or a.min() != a.max():
            return ("torn-frame", a.shape)
        return ("v", int(round(float(a.flat[0]) * (255 if a.dtype.kind == "f" else 1))))

    def _ops_video(self, st, level):
        n = st["n"]
        depth = 3 if self.tier == "quick" else 4
        if level >= depth:
            return []
        if level == 0:
            return [("vget", 0, st["first"])]
        out = [("vget", 0, i) for i in range(n)]
        if level == depth - 1:
            # last step: also read through every derived list (slice, map, repeat, fancy index, concatenation)
            for j in range(1, len(st["lists"])):
                for i in range(len(st["model"][j])):
                    out.append(("vget", j, i))
        return out

    def _video_apply(self, st, op, verify):
        _, j, i = op
        ll, mod = st["lists"][j], st["model"][j]
        got = self._norm(ll[i])
        want_log = []
        want = ev(mod[i], want_log)
        st["history"] = st["history"] + ((j, i),)
        self.note("vget:%s" % ("base" if j == 0 else "derived"))
        if len(st["history"]) >= 2:
            (pj, pi), (cj, ci) = st["history"][-2], st["history"][-1]
            if pj == 0 and cj == 0:
                self.note("vget:%s" % ("forward-jump" if ci > pi + 1 else "next" if ci == pi + 1 else "backward-or-same"))
        if verify and got != want:
            return [Failure("video", "value-depends-on-read-history", "after reads %r element %d of list #%d is %r, an ordinary list gives %r" % (list(st["history"][:-1]), i, j, got, want))]
        return []

    def canon(self, st):
        if st.get("video"):
            return ("video", st["n"], st["history"])
        # the pool as a set of expression lists: pools that differ only in creation order or in holding
        # the same list twice have isomorphic futures (ops address lists by position only)
        # (the newest list is kept apart because the enabled alphabet depends on which list is newest)
        return (tuple(sorted(set(st["model"]), key=repr)), st["model"][-1])

    confluence_mode = "set"

    # ------------------------------------------------------------------ alphabet
    def _slices(self, size):
        if size == "full":
            vals = [None, -4, -3, -2, -1, 0, 1, 2, 3, 4]
            steps = [None, 1, 2, -1, -2]
        elif size == "reduced":
            vals = [None, -1, 1, 2]
            steps = [None, 2, -1]
        else:
            return [(None, None, -1), (1, None, None), (None, -1, None), (None, None, 2), (-2, 0, -1)]
        return [(a, b, c) for c in steps for a in vals for b in vals]

    SCHEDULES = {
        # alphabet size per level (number of ops already applied); the length is the depth bound
        "Q": ["full", "reduced"],
        "A": ["full", "full", "reduced"],
        "B": ["full", "reduced", "tiny", "tiny"],
    }

    def ops(self, st, level):
        if st.get("video"):
            return self._ops_video(st, level)
        n_lists = len(st["model"])
        out = []
        if st["sched"] == "L":
            return self._ops_long(st, level)
        sched = self.SCHEDULES[st["sched"]]
        if level >= len(sched):
            return []
        size = sched[level]
        for j in reversed(range(n_lists)):  # newest first
            n = len(st["model"][j])
            newest = j == n_lists - 1
            if size == "tiny" and not newest:
                continue
            mine = size if (newest or level == 0) else ("reduced" if size == "full" else size)
            full = mine == "full"
            out.append(("len", j))
            for i in range(-n - 1, n + 1):
                out.append(("get", j, i))
            if n:
                out.append(("getnp", j, n - 1))
                out.append(("getnp", j, -1))
            out.append(("iter", j))
            out.append(("copy", j))
            out.append(("map1", j, "f"))
            if full:
                out.append(("map1", j, "g"))
            if (full and level == 0) or st.get("raisers"):
                out.append(("map1", j, "h"))  # a function that fails on every element (after being called)
            for delta in (0, 1, -1):
                if n + delta >= 0:
                    out.append(("mapn", j, delta))
            for r in (0, 1, 2):
                if n * r <= MAXLEN:
                    out.append(("repeat", j, r))
            if full and n * 2 <= MAXLEN:
                out.append(("repeat", j, "np2"))  # a numpy integer
            if full:
                out.append(("mapn", j, "tuple"))  # one callable per element given as a tuple
                if n + 2 <= MAXLEN:
                    out.append(("addplain", j, "tuple2"))
                    out.append(("addplain", j, "gen2"))
            for k in range(n_lists):
                if n + len(st["model"][k]) <= MAXLEN:
                    out.append(("add", j, k))
            for m in (0, 2):
                if n + m <= MAXLEN:
                    out.append(("addplain", j, m))
            for s in self._slices(mine):
                out.append(("slice", j) + s)
            idx_sets = [(), (0,), (-1,), (0, 0), (n - 1, 0), (1, -1, 1), (n,), (-n - 1,)]
            if mine == "tiny":
                idx_sets = [(n - 1, 0), (0, 0), (n,)]
            kinds = ("list", "tuple", "ndarray", "int32", "generator") if full else ("list", "ndarray") if mine == "reduced" else ("ndarray",)
            for kind in kinds:
                for idx in idx_sets:
                    out.append(("fancy", j, kind, idx))
            # range objects (iterables too): the same indices as the list they enumerate - NOT slice semantics
            ranges = [(0, n, 1), (n - 1, -1, -1), (-2, 2, 1), (1, n + 2, 1), (0, n, 2), (-1, -n - 1, -1), (n, 0, -2), (2, 2, 1)]
            if mine != "full":
                ranges = [(n - 1, -1, -1), (-2, 2, 1), (1, n + 2, 1)]
            for rg in ranges:
                out.append(("fancy", j, "range", rg))
        if level == 0 and st["shard"][1] > 1:
            out = [o for i, o in enumerate(out) if i % st["shard"][1] == st["shard"][0]]
        return out

    def _ops_long(self, st, level):
        """the long list: every constructing op once, no length cap, then reads at both ends and across 255/256/257"""
        if level >= 2:
            return []
        j = 0 if level == 0 else len(st["model"]) - 1
        n = len(st["model"][j])
        if n < 200:
            return []  # (an op on the long list that gave a short one: nothing more to learn here)
        out = [("len", j)]
        for i in (0, 1, 255, 256, 257, n - 1, -1, -n, n, -n - 1):
            if -n - 1 <= i <= n:
                out.append(("get", j, i))
        if n:
            out.append(("getnp", j, n - 1))
        if level == 0:
            out += [("copy", j), ("map1", j, "f"), ("mapn", j, 0), ("mapn", j, 1), ("mapn", j, -1), ("mapn", j, "tuple"), ("repeat", j, 1), ("repeat", j, "np2")]
            out += [("add", j, j), ("addplain", j, 2), ("slice", j, None, None, -1), ("slice", j, 250, 260, None), ("slice", j, None, None, 2)]
            out += [("fancy", j, "ndarray", (n - 1, 0, 256, 257)), ("fancy", j, "range", (n - 1, -1, -1)), ("fancy", j, "list", tuple(range(n)))]
        return out

    def is_query(self, op):
        return False

    # ------------------------------------------------------------------ step
    def apply(self, st, op, verify=True):
        from menpo.base import LazyList

        if op[0] == "vget":
            return self._video_apply(st, op, verify)
        kind, j = op[0], op[1]
        ll = st["lists"][j]
        mod = st["model"][j]
        log = st["log"]
        log_before = len(log)
        fails = []
        new_live = new_model = None
        constructing = True
        exp_exc = None

        def call(fn):
            try:
                return fn(), None
            except Exception as e:  # noqa
                return None, e

        if kind == "len":
            constructing = False
            got, exc = call(lambda: len(ll))
            if verify:
                if exc is not None or got != len(mod):
                    fails.append(Failure("len", "length", "expected %d got %r %r" % (len(mod), got, exc)))
                if len(log) != log_before:
                    fails.append(Failure("len", "evaluated-something", repr(log[log_before:])))
            self.note("len:%d" % len(mod))
            return fails
        if kind in ("get", "getnp"):
            constructing = False
            i = op[2]
            idx = np.int64(i) if kind == "getnp" else i
            got, exc = call(lambda: ll[idx])
            ref_log = []
            ref_fail = None
            try:
                ref, ref_fail, ref_log = ref_read(mod[i])
                ref_exc = None
            except IndexError as e:
                ref, ref_exc = None, e
            if verify:
                if ref_exc is not None:
                    if not isinstance(exc, IndexError):
                        fails.append(Failure(kind, "index-error", "index %d of %d: expected IndexError got %r %r" % (i, len(mod), got, exc)))
                    elif len(log) != log_before:
                        fails.append(Failure(kind, "evaluated-something", repr(log[log_before:])))
                elif ref_fail is not None:
                    if not same_failure(exc, ref_fail):
                        fails.append(Failure(kind, "element-failure-not-propagated", "index %d: evaluating the element raises %s%r; the read gave %s %r" % (i, ref_fail.name, (ref_fail.token,), srepr(got), exc)))
                    elif log[log_before:] != ref_log:
                        fails.append(Failure(kind, "evaluation-set", "index %d: expected evaluations %r got %r" % (i, ref_log, log[log_before:])))
                else:
                    if exc is not None:
                        fails.append(Failure(kind, "value", "index %d of %d raised %r" % (i, len(mod), exc)))
                    elif got != ref:
                        fails.append(Failure(kind, "value", "index %d: expected %r got %r" % (i, ref, got)))
                    elif log[log_before:] != ref_log:
                        fails.append(Failure(kind, "evaluation-set", "index %d: expected evaluations %r got %r" % (i, ref_log, log[log_before:])))
            self.note("%s:%s" % (kind, "IndexError" if ref_exc is not None else "element-fails-depth%d" % _depth(mod[i]) if ref_fail is not None else "value-depth%d" % _depth(mod[i])))
            fails.extend(self._others_unchanged(st, None) if verify else [])
            return fails
        if kind == "iter":
            constructing = False
            got, exc = call(lambda: list(ll))
            ref_log, ref, ref_fail = [], [], None
            for e in mod:
                v, ref_fail, lg = ref_read(e)
                ref_log.extend(lg)
                if ref_fail is not None:
                    break  # iterating an ordinary list of thunks stops at the first failing element
                ref.append(v)
            if verify:
                if ref_fail is not None:
                    if not same_failure(exc, ref_fail):
                        fails.append(Failure("iter", "element-failure-not-propagated", "iteration must raise %s%r at element %d; got %s %r" % (ref_fail.name, (ref_fail.token,), len(ref), srepr(got), exc)))
                    elif log[log_before:] != ref_log:
                        fails.append(Failure("iter", "evaluation-set", "expected %r got %r" % (ref_log, log[log_before:])))
                elif exc is not None or got != ref:
                    fails.append(Failure("iter", "value", "expected %r got %r %r" % (ref, got, exc)))
                elif log[log_before:] != ref_log:
                    fails.append(Failure("iter", "evaluation-set", "expected %r got %r" % (ref_log, log[log_before:])))
            self.note("iter:len%d" % len(mod) if ref_fail is None else "iter:element-fails")
            if ref_fail is not None and verify:
                fails.extend(self._others_unchanged(st, None))
            return fails

        # ---- constructing operations
        if kind == "copy":
            new_live, exc = call(lambda: ll.copy())
            new_model = tuple(mod)
        elif kind == "map1":
            f = st["funcs"][op[2]]
            new_live, exc = call(lambda: ll.map(f))
            new_model = tuple(("m", op[2], e) for e in mod)
        elif kind == "mapn" and op[2] == "tuple":
            names = ["f" if i % 2 == 0 else "g" for i in range(len(mod))]
            fs = tuple(st["funcs"][n] for n in names)
            new_live, exc = call(lambda: ll.map(fs))
            new_model = tuple(("m", n, e) for n, e in zip(names, mod))
        elif kind == "mapn":
            cnt = len(mod) + op[2]
            names = ["f" if i % 2 == 0 else "g" for i in range(cnt)]
            fs = [st["funcs"][n] for n in names]
            new_live, exc = call(lambda: ll.map(fs))
            if op[2] != 0:
                exp_exc = ValueError
            else:
                new_model = tuple(("m", n, e) for n, e in zip(names, mod))
        elif kind == "repeat":
            rep = np.int64(2) if op[2] == "np2" else op[2]
            new_live, exc = call(lambda: ll.repeat(rep))
            new_model = tuple(e for e in mod for _ in range(int(rep)))
        elif kind == "add":
            other = st["lists"][op[2]]
            new_live, exc = call(lambda: ll + other)
            new_model = tuple(mod) + tuple(st["model"][op[2]])
        elif kind == "addplain":
            if op[2] in ("tuple2", "gen2"):
                plain = [("p", 0), ("p", 1)]
                other = tuple(plain) if op[2] == "tuple2" else (x for x in plain)
            else:
                plain = [("p", i) for i in range(op[2])]
                other = plain
            new_live, exc = call(lambda: ll + other)
            new_model = tuple(mod) + tuple(plain)
        elif kind == "slice":
            s = slice(op[2], op[3], op[4])
            new_live, exc = call(lambda: ll[s])
            new_model = tuple(list(mod)[s])
        elif kind == "fancy":
            if op[2] == "range":
                arg = range(*op[3])
                idx = list(arg)
            else:
                idx = list(op[3])
                arg = (
                    idx if op[2] == "list"
                    else tuple(idx) if op[2] == "tuple"
                    else np.array(idx, dtype=np.int32) if op[2] == "int32"
                    else (i for i in idx) if op[2] == "generator"
                    else np.array(idx, dtype=int)
                )
            new_live, exc = call(lambda: ll[arg])
            try:
                new_model = tuple(mod[i] for i in idx)
            except IndexError:
                exp_exc = IndexError
        else:
            raise ValueError(op)

        if exp_exc is not None:
            self.note("%s:%s" % (kind, exp_exc.__name__))
            if verify:
                if not isinstance(exc, exp_exc):
                    fails.append(Failure(kind, "refusal", "op %r expected %s got %r %r" % (op, exp_exc.__name__, new_live, exc)))
                if len(log) != log_before:
                    fails.append(Failure(kind, "evaluated-something", repr(log[log_before:])))
                fails.extend(self._others_unchanged(st, None))
            return fails
        self.note("%s:len%d" % (kind, len(new_model)))
        if exc is not None:
            if verify:
                fails.append(Failure(kind, "raised", "op %r raised %r" % (op, exc)))
            return fails
        if verify:
            if not isinstance(new_live, LazyList):
                fails.append(Failure(kind, "result-class", "op %r returned %s" % (op, type(new_live).__name__)))
                return fails
            if len(log) != log_before:
                fails.append(Failure(kind, "not-lazy", "op %r evaluated %r" % (op, log[log_before:])))
            if new_live is ll:
                fails.append(Failure(kind, "result-is-receiver", "op %r returned its receiver" % (op,)))
        st["lists"].append(new_live)
        st["model"].append(new_model)
        if verify:
            fails.extend(self._others_unchanged(st, kind))
        return fails

    def _others_unchanged(self, st, kind):
        """every live list (the new one included) has exactly the model's length and expressions.
        Expressions are compared by evaluating every element on the real list and on the model."""
        fails = []
        log = st["log"]
        for k, (ll, mod) in enumerate(zip(st["lists"], st["model"])):
            is_new = kind is not None and k == len(st["lists"]) - 1
            where = kind if kind else "read"
            clause = "content" if is_new else "receiver-or-bystander-changed"
            if len(ll) != len(mod):
                fails.append(Failure(where, clause, "list #%d has length %d, model %d" % (k, len(ll), len(mod))))
                continue
            for i, e in enumerate(mod):
                mark = len(log)
                ref, ref_fail, ref_log = ref_read(e)
                got = exc = None
                try:
                    got = ll[i]
                except Exception as exc_:  # noqa
                    exc = exc_
                got_log = log[mark:]
                del log[mark:]
                if ref_fail is not None:
                    self.note("read:element-fails")
                    if not same_failure(exc, ref_fail):
                        fails.append(Failure(where, "element-failure-not-propagated", "list #%d element %d: evaluating it raises %s%r; the read gave %s %r" % (k, i, ref_fail.name, (ref_fail.token,), srepr(got), exc)))
                        break
                    if got_log != ref_log:
                        fails.append(Failure(where, "evaluation-set", "list #%d element %d: expected evaluations %r got %r" % (k, i, ref_log, got_log)))
                        break
                    continue
                if exc is not None:
                    fails.append(Failure(where, clause, "list #%d element %d raised %r" % (k, i, exc)))
                    break
                self.note("read:depth%d" % _depth(e))
                if got != ref:
                    fails.append(Failure(where, clause, "list #%d element %d: expected %r got %r" % (k, i, ref, got)))
                    break
                if got_log != ref_log:
                    fails.append(Failure(where, "evaluation-set", "list #%d element %d: expected evaluations %r got %r" % (k, i, ref_log, got_log)))
                    break
        return fails

    # ------------------------------------------------------------------ reporting
    def vacuity(self, notes, stats):
        need = ["vget:forward-jump", "vget:backward-or-same", "vget:next", "vget:derived", "get:IndexError", "mapn:ValueError", "fancy:IndexError", "repeat:len0", "slice:len0", "iter:len0", "read:element-fails", "iter:element-fails", "mapn:len300", "fancy:len300", "repeat:len600", "get:element-fails-depth0", "get:element-fails-depth1"]
        out = ["outcome %s never produced" % n for n in need if not notes.get(n)]
        if not notes.get("read:depth2"):
            out.append("no element of a doubly derived list was ever read")
        return out

    def rule(self):
        return (
            "breadth-first over programs of LazyList operations from 6 base configurations; a state is the tuple "
            "of expression lists of all live lists; every transition runs the real LazyList and the plain-list model"
        )

    def alphabet_sizes(self):
        return {"roots": len(self.roots()), "slices_full": len(self._slices("full")), "slices_reduced": len(self._slices("reduced")), "slices_tiny": len(self._slices("tiny")), "alphabet_per_level": {k: v for k, v in self.SCHEDULES.items() if (k == "Q") == (self.tier == "quick")}}

    def assumptions(self):
        return [
            "lists longer than %d elements are not constructed (ops that would exceed it are not enabled)" % MAXLEN,
            "depth bound on the number of chained operations; deeper levels use the reduced slice/index alphabet",
            "boolean index arrays are outside the property (boolean-free iterables)",
            "failing elements raise TypeError / KeyError (base thunks) or TypeError (mapped function h); an element raising IndexError or StopIteration is not a letter (the Sequence iteration protocol gives those a meaning of their own)",
        ]


def _depth(e):
    d = 0
    while e[0] == "m":
        d += 1
        e = e[2]
    return d


CHECK = C19
