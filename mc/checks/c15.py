"""C15 - labelled groups select exactly what labels say, in deterministic order; predefined labellers only re-index.

Space   : (a) every labelled graph on n <= 3 (quick) / n <= 4 (thorough) points: every ordered family of 1..3
          non-empty masks that covers all points x every edge set (n = 4: the stated edge-set family E4), label
          names from {"zeta", "alpha", "mid", "βeta"} in two opposite orders (variant A: 2-D, main constructor;
          variant B: reversed names, 3-D, init_from_edges) so that for ANY process hash seed one of the two
          orders disagrees with the iteration order of a python set of the names (see graph_roots for the
          exact root lists of each tier); variant C uses the nested names "brow", "eyebrow", "eye" (a bare-string
          request must not be read as a substring test);
          (b) all 33 index-based labellers exported by menpo.landmark.labels, input sizes 1..120, given as
          ndarray / PointCloud / LabelledPointUndirectedGraph, 2-D and 3-D, pairwise distinct points.
Ops     : with_labels (every non-empty label subset: original order, every permuted order, bare string),
          without_labels (every subset incl. all, reversed request, bare string), get_label, add_label (new name
          and every existing name x every index subset; boundary index forms: negative / mixed / repeated indices,
          int64 / int32 arrays, a python int, boolean masks, one past either end -> IndexError), remove_label, each also with an
          unknown label; read-derive-read chains (read a label, derive a group by copy / add_label / remove_label /
          affine apply / in-place point edit, read every label of both again); thorough chains them (depth 2 on every variant A root with n <= 3).
          Labellers: every size (exactly one accepted, every other -> LabellingError), pure re-indexing, every
          output point labelled, commutation with an affine and a non-linear map, mapping dictionary, input
          untouched, and the `labeller` convenience wrapper.
Oracle  : set/tuple reference model written here (union of requested masks, induced edges renumbered, masks
          restricted, labels in ORIGINAL order; a removal / replacement that would leave a point without label
          must raise ValueError; the receiver is unchanged after every call); exact comparison everywhere.
Hashseed: run_custom() first explores in this process and then re-executes the depth-1 enumeration (oracle
          included) in fresh interpreters with PYTHONHASHSEED in {0,1,2} (quick: the whole quick enumeration) /
          0..15 (thorough: see graph_roots) and requires the per-case result digests (class, label order,
          points, edges, masks / exception class) to be identical across the interpreters; a differing digest
          is located down to the operation letter and reported as clause `hash-seed-dependence`.
"""
import collections
import itertools
import json
import os
import re
import subprocess
import sys
import time
import zlib

import numpy as np

from mc.core import Check, Failure, HarnessError
from mc.letters import generic_points, rs

NAMES = ("zeta", "alpha", "mid", "βeta", "omega")
UNKNOWN = "nope"
KMAX = 3
MAX_SIZE = 120
N_LABELLERS = 33
KINDS = ("ndarray", "PointCloud", "LPUG")
HASHSEEDS = {"quick": (0, 1, 2), "thorough": tuple(range(16))}
VERIF = os.path.dirname(os.path.dirname(os.path.dirname(os.path.abspath(__file__))))

# n = 4 (thorough): edge sets as bit sets over pairs (0,1),(0,2),(0,3),(1,2),(1,3),(2,3)
E4 = collections.OrderedDict(
    [
        ("empty", 0b000000),
        ("single-0-3", 0b000100),
        ("matching-01-23", 0b100001),
        ("path-0-1-2-3", 0b101001),
        ("path-2-0-3-1", 0b010110),
        ("star-0", 0b000111),
        ("triangle-1-2-3", 0b111000),
        ("cycle-0-1-2-3", 0b101101),
        ("complete", 0b111111),
    ]
)


def _pairs(n):
    return list(itertools.combinations(range(n), 2))


def _path_bits(n):
    p = _pairs(n)
    return sum(1 << p.index((i, i + 1)) for i in range(n - 1))


def families(n, kmax=KMAX):
    """every ordered family of 1..kmax non-empty masks (bit sets over n points) whose union is everything."""
    full = (1 << n) - 1
    out = []
    for k in range(1, kmax + 1):
        for fam in itertools.product(range(1, full + 1), repeat=k):
            u = 0
            for m in fam:
                u |= m
            if u == full:
                out.append(fam)
    return out


# scale letters: the variant A payload re-expressed at other legal magnitudes (coordinates -> a * x + b, every edge weight w)
SCALES = collections.OrderedDict(
    [
        ("S-9", (1e-9, 0.0, 1e-9)),  # everything 1e-9 times smaller
        ("S-6", (1e-6, 0.0, 1e-6)),
        ("S+6", (1e6, 0.0, 1e6)),
        ("OFF", (0.2, 1e6, 3.0)),  # common offset / spread ~ 1e6
        ("NEQ", (1e-7, 1.0, 1.0 + 1e-9)),  # points that differ relatively by ~1e-7; weights nearly but not exactly 1
    ]
)
BIG_N = 120  # the large-size letter: a 120-point path under three overlapping bands of labels

NESTED = ("brow", "eyebrow", "eye")  # variant C: names that are substrings of one another, not alphabetical


def names_for(k, variant):
    if variant == "C":
        return tuple(NESTED[:k])
    if variant in SCALES or variant == "L":
        variant = "A"
    base = NAMES[:k]
    return tuple(base) if variant == "A" else tuple(reversed(base))


class Model(object):
    """reference labelled graph: points, set of edges (i<j), ordered (label, mask tuple) pairs."""

    __slots__ = ("pts", "edges", "labels", "w")

    def __init__(self, pts, edges, labels, w=1.0):
        self.pts = pts
        self.edges = frozenset(edges)
        self.labels = tuple(labels) if labels is not None else None
        self.w = float(w)  # the weight every edge carries in the adjacency matrix

    @property
    def n(self):
        return self.pts.shape[0]

    def names(self):
        return [l for l, _ in self.labels]

    def mask(self, name):
        return dict(self.labels)[name]

    def select(self, order):
        """points under the union of the masks of `order`, induced edges, masks restricted, labels in `order`."""
        keep = [any(self.mask(l)[i] for l in order) for i in range(self.n)]
        idx = [i for i in range(self.n) if keep[i]]
        ren = {o: k for k, o in enumerate(idx)}
        edges = [(ren[i], ren[j]) for (i, j) in self.edges if keep[i] and keep[j]]
        labels = [(l, tuple(self.mask(l)[i] for i in idx)) for l in order]
        return Model(self.pts[idx], edges, labels, w=self.w)

    def covered(self, labels):
        return all(any(m[i] for _, m in labels) for i in range(self.n))

    def key(self):
        return (self.pts.shape, self.pts.tobytes(), tuple(sorted(self.edges)), self.labels, self.w)


def read_graph(g):
    """what the public API shows of a (labelled) point graph."""
    import scipy.sparse as sp

    pts = np.asarray(g.points)
    a = g.adjacency_matrix
    dense = a.toarray() if sp.issparse(a) else np.asarray(a)
    rows, cols = np.nonzero(dense)
    pairs = set(zip(rows.tolist(), cols.tolist()))
    sym = all((j, i) in pairs for (i, j) in pairs)
    edges = frozenset((min(i, j), max(i, j)) for (i, j) in pairs)
    labels = None
    if hasattr(g, "labels"):
        labels = tuple((l, tuple(bool(x) for x in np.asarray(g._labels_to_masks[l]).tolist())) for l in g.labels)
    read_graph.weights = sorted(set(float(dense[i, j]) for (i, j) in pairs))  # of the graph read last
    return pts, edges, sym, labels, dense.shape


def compare(where, r, exp, cls, prefix="", strict_order=True):
    """list of Failure: live graph r against reference Model exp."""
    out = []
    if not isinstance(r, cls):
        return [Failure(where, prefix + "result-class", "expected %s got %s" % (cls.__name__, type(r).__name__))]
    pts, edges, sym, labels, ashape = read_graph(r)
    if pts.shape != exp.pts.shape or not np.array_equal(pts, exp.pts):
        out.append(Failure(where, prefix + "points", "expected %s got %s" % (exp.pts.tolist(), pts.tolist())))
    if ashape != (exp.n, exp.n):
        out.append(Failure(where, prefix + "edges", "adjacency shape %s for %d points" % (ashape, exp.n)))
    elif not sym or edges != exp.edges:
        out.append(Failure(where, prefix + "edges", "expected %s (weight %r) got %s%s" % (sorted(exp.edges), exp.w, sorted(edges), "" if sym else " (asymmetric)")))
    elif read_graph.weights not in ([], [exp.w]):
        out.append(Failure(where, prefix + "edge-weights", "every edge carries weight %r, result has weights %r" % (exp.w, read_graph.weights)))
    if exp.labels is not None:
        if labels is None:
            out.append(Failure(where, prefix + "labels", "result has no labels"))
        elif labels != exp.labels:
            same_content = len(labels) == len(exp.labels) and dict(labels) == dict(exp.labels)
            if not same_content:
                out.append(Failure(where, prefix + "labels", "expected %s got %s" % (_lab(exp.labels), _lab(labels))))
            elif strict_order:
                out.append(Failure(where, prefix + "label-order", "expected %s got %s" % ([l for l, _ in exp.labels], [l for l, _ in labels])))
        if labels is not None and pts.shape[0] and not all(any(m[i] for _, m in labels if len(m) > i) for i in range(pts.shape[0])):
            out.append(Failure(where, prefix + "unlabelled-point", "labels %s leave a point uncovered" % _lab(labels)))
    return out


def _lab(labels):
    return [(l, [i for i, b in enumerate(m) if b]) for l, m in labels]


def _digest_graph(r):
    pts, edges, sym, labels, _ = read_graph(r)
    return (type(r).__name__, pts.tolist(), sorted(edges), read_graph.weights, labels)


# ------------------------------------------------------------------------------------------------
# labeller payload
# ------------------------------------------------------------------------------------------------
def lab_points(n, d, seed):
    """n pairwise distinct points (jittered lattice: any two differ by >= 0.6 in some coordinate)."""
    if n == 0:
        return np.zeros((0, d))
    r = rs(seed, "c15lab", n, d)
    side = int(np.ceil(n ** (1.0 / d) - 1e-9))
    while side ** d < n:
        side += 1
    grid = np.array(list(itertools.product(range(side), repeat=d))[:n], dtype=float)
    return grid[r.permutation(n)] + 0.4 * r.rand(n, d) + 0.5


def t_affine(p, seed):
    d = p.shape[1]
    r = rs(seed, "c15aff", d)
    a = np.eye(d) * 1.3 + 0.4 * (r.rand(d, d) - 0.5)
    b = 2 * r.rand(d) - 1
    # written column by column so that every row is computed by the same scalar operations (bitwise
    # identical whatever the row order: T(x)[idx] == T(x[idx]) exactly)
    cols = []
    for j in range(d):
        c = np.full(p.shape[0], b[j])
        for k in range(d):
            c = c + p[:, k] * a[j, k]
        cols.append(c)
    return np.stack(cols, axis=1)


def t_nonlinear(p, seed):
    return p + 0.4 * np.sin(1.3 * p[:, ::-1]) + 0.05 * p * p


TRANSFORMS = collections.OrderedDict(
    [
        ("affine", t_affine),
        ("nonlinear", t_nonlinear),
        # scale letters (element-wise, so T(x)[idx] == T(x[idx]) bit for bit)
        ("scale1e-9", lambda p, seed: p * 1e-9),
        ("scale1e6", lambda p, seed: p * 1e6),
        ("offset1e7", lambda p, seed: p + 1e7),
        ("near-identity", lambda p, seed: p * (1.0 + 1e-7)),
    ]
)


def make_input(kind, pts):
    from collections import OrderedDict

    from menpo.shape import LabelledPointUndirectedGraph, PointCloud

    n = pts.shape[0]
    if kind == "ndarray":
        return pts.copy()
    if kind == "PointCloud":
        return PointCloud(pts.copy())
    adj = np.zeros((n, n), dtype=int)
    for i in range(n - 1):
        adj[i, i + 1] = adj[i + 1, i] = 1
    h = (n + 2) // 2
    m1 = np.zeros(n, dtype=bool)
    m1[:h] = True
    m2 = np.zeros(n, dtype=bool)
    m2[n - h :] = True
    return LabelledPointUndirectedGraph(pts.copy(), adj, OrderedDict([("in_zeta", m1), ("in_alpha", m2)]))


def input_obs(x):
    if isinstance(x, np.ndarray):
        return ("ndarray", x.shape, str(x.dtype), x.tobytes())
    pts, edges, sym, labels, _ = read_graph(x) if hasattr(x, "adjacency_matrix") else (np.asarray(x.points), None, None, None, None)
    return (type(x).__name__, pts.shape, pts.tobytes(), None if edges is None else tuple(sorted(edges)), labels, x.has_landmarks)


def input_points(x):
    return x if isinstance(x, np.ndarray) else x.points


def output_struct(out):
    """(class, edges, labels, trilist) of a labeller result - everything but the coordinates."""
    d = [type(out).__name__]
    if hasattr(out, "adjacency_matrix"):
        _, edges, sym, labels, _ = read_graph(out)
        d += [tuple(sorted(edges)), sym, labels]
    else:
        d += [None, None, None]
    d.append(np.asarray(out.trilist).tolist() if hasattr(out, "trilist") else None)
    return tuple(d)


def reindex(out_pts, in_pts):
    """index of the unique input row equal to each output row (None where there is none / several)."""
    idx = []
    for row in out_pts:
        w = np.nonzero((in_pts == row).all(axis=1))[0]
        idx.append(int(w[0]) if len(w) == 1 else None)
    return idx


def name_size(fname):
    toks = fname.split("_to_")[0].split("_")
    nums = [int(t) for t in toks if t.isdigit()]
    return nums[-1] if nums else None


def labeller_names():
    import menpo.landmark.labels as L

    return sorted(n for n in dir(L) if "_to_" in n and not n.startswith("bounding_box") and callable(getattr(L, n)))


# ------------------------------------------------------------------------------------------------
class C15(Check):
    id = "C15"
    title = "labelled groups select exactly what labels say, in deterministic order; labellers only re-index"
    queries_must_not_mutate = True

    def __init__(self, tier, seed):
        super(C15, self).__init__(tier, seed)
        self.last_digest = None
        self.want_digest = False
        self.sweep_mode = False
        self._discovered = {}

    def depth(self):
        return 1 if self.tier == "quick" else 2

    # ------------------------------------------------------------------------------------------ roots
    def graph_roots(self, sweep=False):
        """("g", n, masks, edge bits, variant, depth bound of this root).

        quick   : n <= 3; variant A with every edge set, variant B with the path; depth 1; the sweep repeats all of it.
        thorough: n <= 3: both variants with every edge set, variant A explored to depth 2;
                  n = 4 (depth 1): 1-2 label families x all 64 edge sets (A) + path (B), 3-label families x the 9
                  edge sets of E4 (A) + path (B).
                  sweep (16 interpreters, depth 1): n <= 3: A with empty / path / complete, B with the path;
                  n = 4: the 1-2 label families with one edge set per variant.
        """
        quick = self.tier == "quick"
        out = []
        for n in range(1, 4 if quick else 5):
            npairs = len(_pairs(n))
            path = _path_bits(n)
            complete = 2 ** npairs - 1
            every = list(range(2 ** npairs))
            for fam in families(n):
                if n <= 3:
                    if quick:
                        ebits_a, ebits_b = every, [path]
                    elif sweep:
                        ebits_a, ebits_b = sorted(set([0, path, complete])), [path]
                    else:
                        ebits_a, ebits_b = every, every
                elif len(fam) <= 2:
                    ebits_a, ebits_b = ([E4["path-2-0-3-1"]] if sweep else every), [path]
                elif not sweep:
                    ebits_a, ebits_b = list(E4.values()), [path]
                else:
                    ebits_a, ebits_b = [], []
                for eb in ebits_a:
                    deep = (not quick) and (not sweep) and n <= 3
                    out.append(("g", n, fam, eb, "A", 2 if deep else 1))
                if len(fam) >= 2:
                    for eb in ebits_b:
                        out.append(("g", n, fam, eb, "B", 1))
                    if n <= 3:
                        out.append(("g", n, fam, path, "C", 1))
                # scale letters on a small subset: n = 2 (every family) and n = 3 (1-2 label families), complete graph
                if n == 2 or (n == 3 and len(fam) <= 2):
                    for sv in SCALES:
                        out.append(("g", n, fam, complete, sv, 1))
        # the large-size letter
        lo, mid, hi = (1 << 60) - 1, ((1 << 100) - 1) ^ ((1 << 40) - 1), ((1 << BIG_N) - 1) ^ ((1 << 80) - 1)
        out.append(("g", BIG_N, (lo, mid, hi), -1, "L", 1))
        out.append(("g", BIG_N, (hi | lo, mid), -1, "L", 1))
        return out

    def roots(self):
        return self.graph_roots() + [("lab", nm) for nm in labeller_names()]

    def sweep_roots(self):
        """the enumeration repeated under every hash seed (see graph_roots)."""
        return self.graph_roots(sweep=True) + [("lab", nm) for nm in labeller_names()]

    # ------------------------------------------------------------------------------------------ build
    def build(self, root):
        if root[0] == "g":
            return self._build_graph(root)
        return self._build_labeller(root)

    def _build_graph(self, root):
        from collections import OrderedDict

        from menpo.shape import LabelledPointUndirectedGraph

        _, n, fam, eb, var, maxdepth = root
        d = 3 if var == "B" else 2
        w = 1.0
        if var == "L":
            pts = lab_points(n, d, self.seed)
        elif var in SCALES:
            a, b, w = SCALES[var]
            pts = a * generic_points(n, d, self.seed, salt=("c15", "A")) + b
            if len(set(map(tuple, pts.tolist()))) != n:
                raise HarnessError("scale letter %s collapses the payload" % var)
        else:
            pts = generic_points(n, d, self.seed, salt=("c15", var))
        if eb < 0:
            edges = [(i, i + 1) for i in range(n - 1)]
        else:
            edges = [p for k, p in enumerate(_pairs(n)) if (eb >> k) & 1]
        names = names_for(len(fam), var)
        masks = [tuple(bool((m >> i) & 1) for i in range(n)) for m in fam]
        l2m = OrderedDict((nm, np.array(m, dtype=bool)) for nm, m in zip(names, masks))
        if var != "B":
            adj = np.zeros((n, n), dtype=int if w == 1.0 else float)
            for i, j in edges:
                adj[i, j] = adj[j, i] = 1 if w == 1.0 else w
            g = LabelledPointUndirectedGraph(pts.copy(), adj, l2m)
        else:
            g = LabelledPointUndirectedGraph.init_from_edges(pts.copy(), np.array(edges, dtype=int).reshape(-1, 2), l2m)
        model = Model(pts, edges, list(zip(names, masks)), w=w)
        self.note("root-variant:%s" % var)
        # read-derive-read chains (see _chain_step): quick on the path roots of variants A and C, thorough on every
        # variant A root with n <= 3 and the variant C roots
        chain = n <= 3 and (var in SCALES or (var in ("A", "C") and (eb == _path_bits(n) or (self.tier != "quick" and var == "A"))))
        return {"kind": "g", "g": g, "model": model, "maxdepth": int(maxdepth), "chain": chain}

    def _build_labeller(self, root):
        import menpo.landmark.labels as L
        from menpo.landmark import LabellingError

        f = getattr(L, root[1])
        if root[1] not in self._discovered:
            # which of the sizes 1..MAX_SIZE are accepted (a pure function of the tree: computed once per process)
            accepted, other = [], []
            for n in range(1, MAX_SIZE + 1):
                try:
                    f(lab_points(n, 2, self.seed))
                    accepted.append(n)
                except LabellingError:
                    pass
                except Exception as e:  # noqa - judged in check_root
                    other.append((n, type(e).__name__))
            self._discovered[root[1]] = (accepted, other)
        accepted, other = self._discovered[root[1]]
        return {"kind": "lab", "name": root[1], "f": f, "accepted": accepted, "other": other, "N": accepted[0] if len(accepted) == 1 else name_size(root[1])}

    def check_root(self, st, root):
        if st["kind"] == "g":
            from menpo.shape import LabelledPointUndirectedGraph

            return compare("build", st["g"], st["model"], LabelledPointUndirectedGraph)
        fails = []
        self.note("labeller:root")
        if st["other"]:
            fails.append(Failure("size", "wrong-size-not-LabellingError", "%s: sizes %s raise something else than LabellingError" % (st["name"], st["other"][:6])))
        if len(st["accepted"]) != 1:
            fails.append(Failure("size", "unique-accepted-size", "%s accepts sizes %s (of 1..%d)" % (st["name"], st["accepted"][:10], MAX_SIZE)))
        elif st["accepted"][0] != name_size(st["name"]):
            fails.append(Failure("size", "accepted-size-vs-name", "%s accepts %d points" % (st["name"], st["accepted"][0])))
        return fails

    def canon(self, st):
        if st["kind"] == "lab":
            return ("lab", st["name"])
        from mc.observe import obs_key, observe

        return (st["model"].key(), obs_key(observe(st["g"])))

    # ------------------------------------------------------------------------------------------ alphabet
    def is_query(self, op):
        return op[-1] == "T"

    def ops(self, st, level):
        if st["kind"] == "lab":
            return self._lab_ops(st) if level == 0 else []
        if level >= st["maxdepth"]:
            return []
        return self.graph_ops(st["model"], "T" if level + 1 >= st["maxdepth"] else "N", rich=(level == 0), chain=st["chain"] and level == 0 and not self.sweep_mode)

    def graph_ops(self, model, T, rich=True, chain=False):
        names = model.names()
        n = model.n
        k = len(names)
        out = []
        subsets = [c for r in range(1, k + 1) for c in itertools.combinations(names, r)]
        for s in subsets:
            out.append(("with", s, T))
        for s in subsets:
            if len(s) >= 2:
                perms = [p for p in itertools.permutations(s) if p != s] if (rich and len(s) <= 3) else [tuple(reversed(s))]
                for p in perms:
                    out.append(("with-perm", p, T))
        for nm in names:
            out.append(("with-str", nm, T))
        out.append(("with-empty", (), T))  # boundary: a request of size 0
        out.append(("with-dup", (names[0], names[0]), T))  # boundary: the same label requested twice
        if k >= 2:
            out.append(("with-dup", (names[0], names[1], names[0]), T))
        out.append(("with-unknown", (UNKNOWN,), T))
        out.append(("with-unknown", (names[0], UNKNOWN), T))
        for s in subsets:
            out.append(("without", s, T))
        for s in subsets:
            if len(s) >= 2:
                out.append(("without", tuple(reversed(s)), T))
        for nm in names:
            out.append(("without-str", nm, T))
        out.append(("without-unknown", (UNKNOWN,), T))
        out.append(("without-unknown", (UNKNOWN, names[-1]), T))
        for nm in names:
            out.append(("get", nm, "T"))
        out.append(("get-unknown", UNKNOWN, "T"))
        new = [x for x in NAMES if x not in names][0]
        if n <= 4:
            idxsets = [c for r in range(0, n + 1) for c in itertools.combinations(range(n), r)]
        else:  # the large-size letter: structured index sets only
            idxsets = [(), (0,), (n - 1,), tuple(range(0, n, 2)), tuple(range(n // 2, n)), tuple(range(n))]
        for idx in idxsets:
            out.append(("add", new, idx, "list", T))
        for idx in sorted(set([(), tuple(range(n)), (n - 1,), tuple(reversed(range(n)))])):
            out.append(("add", new, idx, "array", T))
        # boundary index forms (everything numpy's `mask[indices] = True` accepts on the unchanged tree): first / last
        # point by its negative index, negative and non-negative mixed, the same point twice (also under both of its
        # names), every point negatively, unsorted; one past either end of the index range must raise IndexError
        bsets = sorted(set([(-1,), (-n,), (0, -1), (n - 1, -1), (0, 0), (n - 1, 0), tuple(range(-1, -n - 1, -1))]))
        oob = [(n,), (-n - 1,), (0, n), (-1, -n - 1)]
        for idx in bsets + oob:
            out.append(("add", new, idx, "list", T))
            if rich:
                out.append(("add", new, idx, "array", T))
        for idx in [(-1,), (0, n - 1), (n,)]:
            out.append(("add", new, idx, "int32", T))
        for i in sorted(set([0, n - 1, -1, -n])) + [n, -n - 1]:
            out.append(("add", new, (i,), "scalar", T))
        for idx in idxsets if rich else [(), (n - 1,)]:
            out.append(("add", new, idx, "bool", T))  # a boolean mask over the points
        out.append(("add", new, tuple(range(n)), "bool-long", T))  # mask one longer / shorter than the points
        if n >= 2:  # (numpy accepts a zero-length boolean index on anything)
            out.append(("add", new, tuple(range(n - 1)), "bool-short", T))
        for nm in names:
            for idx in idxsets if rich else sorted(set([(), (0,), tuple(range(n))])):
                out.append(("add-existing", nm, idx, "list", T))
        for idx in (bsets + oob) if rich else [(-1,), (n,)]:
            out.append(("add-existing", names[0], idx, "list", T))
        for nm in names:
            out.append(("remove", nm, T))
        out.append(("remove-unknown", UNKNOWN, "T"))
        if chain:
            # read label L first, derive a second group, read everything again (one composite transition each)
            for L in names:
                out.append(("chain", L, "copy", (), "T"))
                for idx in idxsets:
                    mask = tuple(i in idx for i in range(n))
                    if model.covered([(l, mask if l == L else m) for l, m in model.labels]):
                        out.append(("chain", L, "add-existing", idx, "T"))
                for idx in sorted(set([(0,), tuple(range(n))])):
                    out.append(("chain", L, "add-new", idx, "T"))
                for other in names:
                    if other != L and model.covered([(l, m) for l, m in model.labels if l != other]):
                        out.append(("chain", L, "remove", other, "T"))
                out.append(("chain", L, "affine", (), "T"))
                out.append(("chain", L, "inplace", (), "T"))
        return out

    def _lab_ops(self, st):
        out = []
        for kind in KINDS:
            for d in (2, 3):
                sizes = range(1, MAX_SIZE + 1)
                if self.sweep_mode:
                    sizes = sorted(set(n for n in (1, (st["N"] or 2) - 1, st["N"] or 2, (st["N"] or 2) + 1, MAX_SIZE) if 1 <= n <= MAX_SIZE))
                if kind != "LPUG":
                    out.append(("size", 0, kind, d, "T"))  # boundary: no point at all (a labelled graph cannot be empty)
                for n in sizes:
                    out.append(("size", n, kind, d, "T"))
        for kind in KINDS:
            for d in (2, 3):
                for t in TRANSFORMS:
                    out.append(("commute", kind, d, t, "T"))
                out.append(("mapping", kind, d, "T"))
        for d in (2, 3):
            out.append(("via-labeller", d, "T"))
        return out

    # ------------------------------------------------------------------------------------------ step
    def apply(self, st, op, verify=True):
        if st["kind"] == "lab":
            return self._lab_apply(st, op, verify)
        if op[0] == "chain":
            self.last_digest = None
            return self._chain_step(st, op, verify)
        fails, new_model, new_live, digest = self._graph_step(st, op, verify)
        self.last_digest = digest
        if verify and not fails or not verify:
            if op[-1] == "N" and new_live is not None and new_model is not None and new_model.labels is not None:
                st["g"], st["model"] = new_live, new_model
        return fails

    # ------------------------------------------------------------------------------------------ read-derive-read
    def _reads(self, where, stage, g, model, labels):
        """get_label / with_labels / without_labels (bare string) of every label in `labels`, against the model."""
        from menpo.shape import LabelledPointUndirectedGraph, PointUndirectedGraph

        fails = []
        names = model.names()
        for l in labels:
            sel = model.select([l])
            rest = [x for x in names if x != l]
            plan = [
                ("get", lambda: g.get_label(l), Model(sel.pts, sel.edges, None, w=sel.w), PointUndirectedGraph),
                ("with", lambda: g.with_labels([l]), sel, LabelledPointUndirectedGraph),
                ("without", lambda: g.without_labels(l), model.select(rest) if rest else None, LabelledPointUndirectedGraph),
            ]
            for nm, fn, exp, cls in plan:
                try:
                    r, exc = fn(), None
                except Exception as e:  # noqa - judged below
                    r, exc = None, e
                self.note("chain-read:%s-%s" % (stage, nm))
                if exp is None or exp.n == 0:
                    if exc is None and exp is None:
                        fails.append(Failure(where, "%s-%s-not-refused" % (stage, nm), "label %r: nothing left, yet a value was returned" % l))
                    elif exc is None:
                        fails.extend(compare(where, r, exp, cls, prefix="%s-%s-" % (stage, nm)))
                    continue
                if exc is not None:
                    fails.append(Failure(where, "%s-%s-raised" % (stage, nm), "label %r on labels %s raised %r" % (l, _lab(model.labels), exc)))
                else:
                    fails.extend(compare(where, r, exp, cls, prefix="%s-%s-" % (stage, nm)))
        return fails

    def _chain_step(self, st, op, verify):
        """read label L, derive a second group from the same object, then read both again: what a label returns
        depends on the group it is asked of now, never on what was read before."""
        from menpo.shape import LabelledPointUndirectedGraph

        g, model = st["g"], st["model"]
        _, L, dkind, darg, _T = op
        where = "chain-" + dkind
        n = model.n
        fails = self._reads(where, "first", g, model, [L])
        saved = None
        if dkind == "copy":
            g2, model2 = g.copy(), model
        elif dkind == "add-existing":
            mask = tuple(i in darg for i in range(n))
            g2 = g.add_label(L, list(darg))
            model2 = Model(model.pts, model.edges, [(l, mask if l == L else m) for l, m in model.labels], w=model.w)
        elif dkind == "add-new":
            new = [x for x in NAMES if x not in model.names()][0]
            g2 = g.add_label(new, list(darg))
            model2 = Model(model.pts, model.edges, list(model.labels) + [(new, tuple(i in darg for i in range(n)))], w=model.w)
        elif dkind == "remove":
            g2 = g.remove_label(darg)
            model2 = Model(model.pts, model.edges, [(l, m) for l, m in model.labels if l != darg], w=model.w)
        elif dkind == "affine":
            from menpo.transform import Affine

            d = model.pts.shape[1]
            r = rs(self.seed, "c15chain", d)
            h = np.eye(d + 1)
            h[:d, :d] = 1.2 * np.eye(d) + 0.5 * (r.rand(d, d) - 0.5)
            h[:d, d] = 3 + 2 * r.rand(d)
            g2 = Affine(h).apply(g)
            want = model.pts.dot(h[:d, :d].T) + h[:d, d]
            got = np.asarray(g2.points)
            if got.shape != want.shape or not np.allclose(got, want, atol=1e-12 * max(1.0, float(np.abs(want).max())), rtol=0):
                fails.append(Failure(where, "derived-points", "transformed group has points %s, expected %s" % (got.tolist(), want.tolist())))
                return fails if verify else []
            model2 = Model(got.copy(), model.edges, model.labels, w=model.w)
        elif dkind == "inplace":
            saved = g.points.copy()
            g.points[...] = saved * 1.5 + 0.25
            g2, model2 = g, Model(saved * 1.5 + 0.25, model.edges, model.labels, w=model.w)
        else:
            raise HarnessError("unknown derivation %r" % (op,))
        fails.extend(compare(where, g2, model2, LabelledPointUndirectedGraph, prefix="derived-"))
        fails.extend(self._reads(where, "derived", g2, model2, model2.names()))
        if saved is not None:
            g.points[...] = saved
        fails.extend(self._reads(where, "reread", g, model, [L]))
        fails.extend(compare(where, g, model, LabelledPointUndirectedGraph, prefix="receiver-"))
        self.note("chain:%s" % dkind)
        return fails if verify else []

    def _graph_step(self, st, op, verify):
        from menpo.shape import LabelledPointUndirectedGraph, PointUndirectedGraph

        g, model = st["g"], st["model"]
        kind = op[0]
        names = model.names()
        fails = []
        exp = None  # expected Model of the result
        exp_exc = None  # None / exception class(es) that MUST be raised / "any"
        may_raise = False  # raising is as acceptable as the expected value
        strict = True
        cls = LabelledPointUndirectedGraph

        if kind in ("with", "with-perm", "with-str", "with-unknown", "with-empty", "with-dup"):
            req = op[1]
            arg = req if kind == "with-str" else list(req)
            order = [req] if kind == "with-str" else list(req)
            fn = lambda: g.with_labels(arg)  # noqa
            if kind in ("with-unknown", "with-empty"):
                exp_exc = "any"  # an empty request selects nothing: a labelled group without labels cannot exist
            elif kind == "with-dup":
                order = [l for i, l in enumerate(order) if l not in order[:i]]
                exp = model.select(order)
                strict = False  # the same label asked twice is one label; content and determinism only
            else:
                exp = model.select(order)
                strict = kind != "with-perm"  # [interp] a permuted request: content and determinism only
        elif kind in ("without", "without-str", "without-unknown"):
            req = op[1]
            arg = req if kind == "without-str" else list(req)
            drop = [req] if kind == "without-str" else list(req)
            fn = lambda: g.without_labels(arg)  # noqa
            order = [l for l in names if l not in drop]
            if not order:
                exp_exc = "any"  # nothing left: a labelled group without labels cannot exist
            else:
                exp = model.select(order)
                may_raise = kind == "without-unknown"
        elif kind in ("get", "get-unknown"):
            fn = lambda: g.get_label(op[1])  # noqa
            cls = PointUndirectedGraph
            if kind == "get-unknown":
                exp_exc = "any"
            else:
                sel = model.select([op[1]])
                exp = Model(sel.pts, sel.edges, None, w=sel.w)
        elif kind in ("add", "add-existing"):
            idx = list(op[2])
            form = op[3]
            n_ = model.n
            in_range = all(-n_ <= i < n_ for i in idx)
            hit = set(i % n_ for i in idx) if in_range else set()
            mask = tuple(i in hit for i in range(n_))
            if form == "list":
                arg = idx
            elif form == "array":
                arg = np.array(idx, dtype=np.int64)
            elif form == "int32":
                arg = np.array(idx, dtype=np.int32)
            elif form == "scalar":
                arg = int(idx[0])
            elif form == "bool":
                arg = np.array(mask, dtype=bool)
            elif form in ("bool-long", "bool-short"):
                arg = np.ones(n_ + (1 if form == "bool-long" else -1), dtype=bool)
                in_range = False
            else:
                raise HarnessError("unknown index form %r" % (op,))
            fn = lambda: g.add_label(op[1], arg)  # noqa
            icls = "oob" if not in_range else "empty" if not idx else "negative" if all(i < 0 for i in idx) else "mixed" if any(i < 0 for i in idx) else "repeated" if len(hit) < len(idx) else "plain"
            self.note("add-form:%s-%s" % (form, icls))
            if not in_range:
                exp_exc = IndexError  # one past either end of the index range / a mask of another length
            elif kind == "add":
                exp = Model(model.pts, model.edges, list(model.labels) + [(op[1], mask)], w=model.w)
            else:
                # an existing name: that mask is replaced in place (order kept); a replacement that leaves a point
                # without any label must be refused ("every point always carries at least one label", D27)
                exp = Model(model.pts, model.edges, [(l, mask if l == op[1] else m) for l, m in model.labels], w=model.w)
                if not exp.covered(exp.labels):
                    exp, exp_exc = None, ValueError
            if not in_range:
                exp = None
        elif kind in ("remove", "remove-unknown"):
            fn = lambda: g.remove_label(op[1])  # noqa
            if kind == "remove-unknown":
                exp_exc = "any"
            else:
                rest = [(l, m) for l, m in model.labels if l != op[1]]
                if rest and model.covered(rest):
                    exp = Model(model.pts, model.edges, rest, w=model.w)
                else:
                    exp_exc = ValueError
        else:
            raise HarnessError("unknown op %r" % (op,))

        if exp is not None and exp.n == 0:
            may_raise = True  # only labels over no point requested: menpo graphs cannot be empty

        try:
            r, exc = fn(), None
        except Exception as e:  # noqa - compared with the model's expectation below
            r, exc = None, e

        digest = None
        new_model = None
        if exp_exc is not None:
            if exc is None:
                if verify:
                    what = "uncovered-removal-not-refused" if kind == "remove" else "uncovered-replacement-not-refused" if kind == "add-existing" else "not-refused"
                    fails.append(Failure(kind, what, "%s(%r) on labels %s returned %s instead of raising" % (kind, op[1], _lab(model.labels), _describe(r))))
            elif exp_exc != "any" and not isinstance(exc, exp_exc):
                if verify:
                    fails.append(Failure(kind, "refusal-class", "expected %s got %r" % (exp_exc.__name__, exc)))
            self.note("%s:refused-%s" % (kind, type(exc).__name__ if exc is not None else "NOT"))
            digest = ("raises", type(exc).__name__) if exc is not None else ("value",)
        elif exc is not None:
            if may_raise:
                self.note("%s:raises-%s%s" % (kind, type(exc).__name__, "-empty-selection" if exp.n == 0 else ""))
            else:
                if verify:
                    fails.append(Failure(kind, "raised", "%r on labels %s raised %r" % (op[:-1], _lab(model.labels), exc)))
                self.note("%s:raised" % kind)
            digest = ("raises", type(exc).__name__)
        else:
            if verify:
                fails.extend(compare(kind, r, exp, cls, strict_order=strict))
                if r is g:
                    fails.append(Failure(kind, "result-is-receiver", "the receiver itself was returned"))
            if isinstance(r, LabelledPointUndirectedGraph) and exp.labels is not None:
                got_order = tuple(r.labels)
                if kind == "with-perm":
                    orig = tuple(l for l in names if l in got_order)
                    cls_ = "request-order" if got_order == tuple(op[1]) else "original-order" if got_order == orig else "other-order"
                    self.note("with-perm:%s" % cls_)
                    new_model = Model(exp.pts, exp.edges, [(l, dict(exp.labels).get(l)) for l in got_order], w=exp.w) if set(got_order) == set(exp.names()) else None
                else:
                    self.note("%s:ok-%dpts-%dlabels" % (kind, exp.n, len(exp.labels)))
                    new_model = exp
            else:
                self.note("%s:ok" % kind)
            if self.want_digest:
                digest = _digest_graph(r)
        # the receiver is still the labelled group it was (every point labelled, nothing moved)
        if verify:
            fails.extend(compare(kind, g, model, LabelledPointUndirectedGraph, prefix="receiver-"))
        return fails, new_model, r, digest

    # ------------------------------------------------------------------------------------------ labellers
    def _lab_apply(self, st, op, verify):
        from menpo.landmark import LabellingError

        f, N, name = st["f"], st["N"], st["name"]
        kind = op[0]
        fails = []
        self.last_digest = None
        if kind == "size":
            n, ik, d = op[1], op[2], op[3]
            pts = lab_points(n, d, self.seed)
            x = make_input(ik, pts)
            before = input_obs(x)
            try:
                out, exc = f(x), None
            except Exception as e:  # noqa
                out, exc = None, e
            if n != N:
                self.note("size:rejected" if isinstance(exc, LabellingError) else "size:wrong-size-other")
                if n == 0 and isinstance(exc, LabellingError):
                    self.note("size:zero-points-rejected")
                if verify and not isinstance(exc, LabellingError):
                    fails.append(Failure("size", "wrong-size-not-rejected" if exc is None else "wrong-size-not-LabellingError", "%s(%s %dx%d), expected size %s: %s" % (name, ik, n, d, N, "accepted" if exc is None else repr(exc))))
            else:
                self.note("size:accepted-%s-%dd" % (ik, d))
                if exc is not None:
                    if verify:
                        fails.append(Failure("size", "right-size-raised", "%s(%s %dx%d) raised %r" % (name, ik, n, d, exc)))
                else:
                    f2, idx = self._reindex_oracle(name, out, pts, ik, d)
                    if verify:
                        fails.extend(f2)
                    self.last_digest = (idx, output_struct(out))
            if verify and input_obs(x) != before:
                fails.append(Failure("size", "input-changed", "%s(%s %dx%d) changed its input" % (name, ik, n, d)))
            if self.last_digest is None:
                self.last_digest = ("raises", type(exc).__name__) if exc is not None else ("value",)
            return fails
        if N is None:
            return [Failure(kind, "no-expected-size", name)]
        if kind == "commute":
            ik, d, tname = op[1], op[2], op[3]
            pts = lab_points(N, d, self.seed)
            tp = TRANSFORMS[tname](pts, self.seed)
            if len(set(map(tuple, tp.tolist()))) != N:
                raise HarnessError("transform letter %s is not injective on the payload" % tname)
            x1, x2 = make_input(ik, pts), make_input(ik, tp)
            b1, b2 = input_obs(x1), input_obs(x2)
            o1, o2 = f(x1), f(x2)
            idx = reindex(np.asarray(o1.points), pts)
            if None in idx:
                self.note("commute:not-a-reindexing")
                return [Failure("commute", "not-a-reindexing", "%s(%s %dd)" % (name, ik, d))] if verify else []
            if verify:
                if np.asarray(o2.points).shape != (len(idx), d) or not np.array_equal(np.asarray(o2.points), tp[idx]):
                    fails.append(Failure("commute", "points", "%s(%s %dd): L(T(x)) != T(x)[index map of L(x)] for T=%s" % (name, ik, d, tname)))
                elif not np.array_equal(TRANSFORMS[tname](np.asarray(o1.points), self.seed), np.asarray(o2.points)):
                    fails.append(Failure("commute", "points", "%s(%s %dd): T(L(x)) != L(T(x)) for T=%s" % (name, ik, d, tname)))
                if output_struct(o1) != output_struct(o2):
                    fails.append(Failure("commute", "structure", "%s(%s %dd): class/edges/labels/trilist of L(T(x)) differ from those of L(x), T=%s" % (name, ik, d, tname)))
                if input_obs(x1) != b1 or input_obs(x2) != b2:
                    fails.append(Failure("commute", "input-changed", "%s(%s %dd)" % (name, ik, d)))
            self.note("commute:%s-%s" % (tname, type(o1).__name__))
            self.last_digest = (idx, output_struct(o2))
            return fails
        if kind == "mapping":
            ik, d = op[1], op[2]
            pts = lab_points(N, d, self.seed)
            x = make_input(ik, pts)
            before = input_obs(x)
            plain = f(make_input(ik, pts))
            out, mapping = f(x, return_mapping=True)
            n_out = np.asarray(out.points).shape[0]
            cover = sorted(set(int(i) for v in mapping.values() for i in np.asarray(v).ravel().tolist()))
            if verify:
                if output_struct(out) != output_struct(plain) or not np.array_equal(np.asarray(out.points), np.asarray(plain.points)):
                    fails.append(Failure("mapping", "result-differs", "%s(%s %dd): return_mapping=True gives another result" % (name, ik, d)))
                if cover != list(range(n_out)):
                    fails.append(Failure("mapping", "unlabelled-point", "%s(%s %dd): mapping covers %s of %d output points" % (name, ik, d, cover, n_out)))
                if hasattr(out, "labels"):
                    _, _, _, labels, _ = read_graph(out)
                    expl = tuple((l, tuple(i in set(np.asarray(v).ravel().tolist()) for i in range(n_out))) for l, v in mapping.items())
                    if labels != expl:
                        fails.append(Failure("mapping", "labels-vs-mapping", "%s(%s %dd): labels %s, mapping %s" % (name, ik, d, _lab(labels), _lab(expl))))
                if input_obs(x) != before:
                    fails.append(Failure("mapping", "input-changed", "%s(%s %dd)" % (name, ik, d)))
            self.note("mapping:%s" % ("labelled-graph" if hasattr(out, "labels") else type(out).__name__))
            self.last_digest = (list(mapping.keys()), cover == list(range(n_out)))
            return fails
        if kind == "via-labeller":
            from menpo.landmark import labeller
            from menpo.shape import PointCloud

            from mc.observe import obs_diff, observe

            d = op[1]
            pts = lab_points(N, d, self.seed)
            host = PointCloud(lab_points(4, d, self.seed) + 0.25)
            host.landmarks["src"] = PointCloud(pts.copy())
            src_before = observe(host.landmarks["src"])
            ret = labeller(host, "src", f)
            ref = f(PointCloud(pts.copy()))
            gl = f.group_label
            if verify:
                if ret is not host:
                    fails.append(Failure("via-labeller", "return", "labeller() did not return its landmarkable"))
                if gl not in host.landmarks:
                    fails.append(Failure("via-labeller", "group-missing", "group %r not attached" % gl))
                else:
                    dd = obs_diff(observe(ref), observe(host.landmarks[gl]))
                    if dd:
                        fails.append(Failure("via-labeller", "group-differs", "%s: attached group differs from the direct call: %s" % (name, dd)))
                dd = obs_diff(src_before, observe(host.landmarks["src"]))
                if dd:
                    fails.append(Failure("via-labeller", "input-changed", "%s: source group changed: %s" % (name, dd)))
            self.note("via-labeller:ok")
            self.last_digest = (gl, list(host.landmarks.keys()))
            return fails
        raise HarnessError("unknown op %r" % (op,))

    def _reindex_oracle(self, name, out, pts, ik, d):
        from menpo.shape import PointCloud

        fails = []
        tag = "%s(%s %dx%d)" % (name, ik, pts.shape[0], d)
        if not isinstance(out, PointCloud):
            return [Failure("size", "result-class", "%s returned %s" % (tag, type(out).__name__))], None
        op_ = np.asarray(out.points)
        if op_.ndim != 2 or op_.shape[1] != d:
            return [Failure("size", "not-a-reindexing", "%s: output shape %s" % (tag, op_.shape))], None
        idx = reindex(op_, pts)
        if None in idx:
            fails.append(Failure("size", "not-a-reindexing", "%s: output point #%d is not an input point" % (tag, idx.index(None))))
        elif len(set(idx)) != len(idx):
            dup = [i for i, c in collections.Counter(idx).items() if c > 1]
            fails.append(Failure("size", "output-points-not-distinct", "%s: input points %s appear more than once" % (tag, dup)))
        if hasattr(out, "labels"):
            _, edges, sym, labels, ashape = read_graph(out)
            n_out = op_.shape[0]
            if ashape != (n_out, n_out) or not sym:
                fails.append(Failure("size", "edges", "%s: adjacency %s, symmetric=%s" % (tag, ashape, sym)))
            unl = [i for i in range(n_out) if not any(len(m) == n_out and m[i] for _, m in labels)]
            if unl:
                fails.append(Failure("size", "unlabelled-point", "%s: output points %s carry no label" % (tag, unl)))
            self.note("labeller-output:labelled-graph")
        else:
            self.note("labeller-output:%s" % type(out).__name__)
        if ik == "LPUG" and type(out).__name__ not in ("LabelledPointUndirectedGraph", "TriMesh"):
            fails.append(Failure("size", "result-class", "%s returned %s" % (tag, type(out).__name__)))
        return fails, idx

    # ------------------------------------------------------------------------------------------ hash-seed sweep
    @classmethod
    def run_custom(cls, tier, seed, cap):
        from mc import core

        t0 = time.time()
        res, check = core.run_check(cls, tier, seed, cap_s=cap)
        jobs = int(os.environ.get("VERIF_JOBS", "0")) or min(16, os.cpu_count() or 1)
        if cap and time.time() - t0 > cap:
            res.capped = True
            res.extra = {"hash_seed_sweep": "skipped: wall-clock cap reached"}
            return res, check
        extra, records, errors, notes = hash_seed_sweep(tier, seed, jobs)
        res.failures.extend(records)
        res.errors.extend(errors)
        res.notes.update(notes)
        res.extra = {"hash_seed_sweep": extra}
        res.wall = time.time() - t0
        return res, check

    def replay_custom(self, rec):
        from mc.runner import _tuplify

        f0 = (rec.get("failures") or [{}])[0]
        m = re.search(r"PYTHONHASHSEED=(\d+)", f0.get("detail", ""))
        root = _tuplify(rec["initial"])
        if f0.get("clause") == "hash-seed-dependence":
            seeds = [int(s) for s in re.findall(r"PYTHONHASHSEED=(\d+)", f0.get("detail", ""))][:2]
            per = {}
            for h in seeds:
                out = _spawn(["detail", self.tier, str(self.seed), json.dumps(rec["initial"])], h)
                per[h] = dict((json.dumps(o), dg) for o, dg in out["ops"])
            key = json.dumps(rec["op"])
            vals = [per[h].get(key) for h in seeds]
            if len(set(vals)) > 1:
                return [Failure(f0["where"], "hash-seed-dependence", "op %s: %s" % (key, "; ".join("PYTHONHASHSEED=%d gives %s" % (h, v) for h, v in zip(seeds, vals))))]
            return []
        if m and os.environ.get("PYTHONHASHSEED", "") != m.group(1) and not os.environ.get("C15_NO_RESPAWN"):
            out = _spawn(["replay", self.tier, str(self.seed), json.dumps({"initial": rec["initial"], "ops": rec["ops"], "context": rec.get("context", []), "op": rec["op"]})], int(m.group(1)))
            return [Failure(f["where"], f["clause"], f["detail"], f.get("finding")) for f in out["failures"]]
        return self._replay_here(rec)

    def _replay_here(self, rec):
        from mc.runner import _tuplify

        root = _tuplify(rec["initial"])
        st = self.build(root)
        fails = list(self.check_root(st, root)) if rec["op"] is None and not rec["ops"] else []
        for op in [_tuplify(o) for o in rec["ops"]]:
            self.apply(st, op, verify=False)
        for op in [_tuplify(o) for o in rec.get("context", [])]:
            self.apply(st, op, verify=False)
        if rec["op"] is not None:
            fails = self.apply(st, _tuplify(rec["op"]), verify=True)
        return fails

    # ------------------------------------------------------------------------------------------ reporting
    def vacuity(self, notes, stats):
        need = [
            "with:ok-1pts-1labels",
            "with:ok-3pts-3labels",
            "with-str:ok-2pts-1labels",
            "without:ok-2pts-2labels",
            "get:ok",
            "remove:refused-ValueError",
            "remove:ok-3pts-2labels",
            "add:ok-3pts-4labels",
            "add-existing:ok-3pts-3labels",
            "add-existing:refused-ValueError",
            "labeller-output:labelled-graph",
            "labeller-output:TriMesh",
            "size:rejected",
            "commute:affine-LabelledPointUndirectedGraph",
            "commute:nonlinear-TriMesh",
            "mapping:labelled-graph",
            "via-labeller:ok",
            "hashseed:root-digests-identical",
            "with-dup:ok-3pts-2labels",
            "add-form:list-negative",
            "add-form:list-mixed",
            "add-form:list-repeated",
            "add-form:list-empty",
            "add-form:list-oob",
            "add-form:array-negative",
            "add-form:array-oob",
            "add-form:int32-negative",
            "add-form:scalar-negative",
            "add-form:scalar-oob",
            "add-form:bool-plain",
            "add-form:bool-empty",
            "add-form:bool-long-oob",
            "add-form:bool-short-oob",
            "add:refused-IndexError",
            "add-existing:refused-IndexError",
            "size:zero-points-rejected",
            "root-variant:S-9",
            "root-variant:S-6",
            "root-variant:S+6",
            "root-variant:OFF",
            "root-variant:NEQ",
            "root-variant:L",
            "commute:scale1e-9-LabelledPointUndirectedGraph",
            "commute:scale1e6-TriMesh",
            "commute:offset1e7-LabelledPointUndirectedGraph",
            "commute:near-identity-LabelledPointUndirectedGraph",
            "with:ok-%dpts-3labels" % BIG_N,
            "chain:copy",
            "chain:add-existing",
            "chain:add-new",
            "chain:remove",
            "chain:affine",
            "chain:inplace",
            "chain-read:derived-get",
            "chain-read:reread-without",
        ]
        out = ["outcome %s never produced" % n for n in need if n and not notes.get(n)]
        if not any(k.startswith("with-perm:") for k in notes):
            out.append("no permuted with_labels request was answered")
        if not any(k.startswith("without:refused-") for k in notes):
            out.append("removing every label was never attempted")
        if not any(k.startswith("with-empty:refused-") and not k.endswith("NOT") for k in notes):
            out.append("an empty with_labels request was never refused")
        if not any(k.startswith("with-unknown:refused-") and not k.endswith("NOT") for k in notes):
            out.append("no unknown label was ever refused")
        if notes.get("labeller:root", 0) != N_LABELLERS:
            out.append("%d labellers found, %d expected" % (notes.get("labeller:root", 0), N_LABELLERS))
        n_acc = sum(v for k, v in notes.items() if k.startswith("size:accepted-"))
        if n_acc != N_LABELLERS * len(KINDS) * 2:
            out.append("%d accepted labeller calls, expected %d" % (n_acc, N_LABELLERS * len(KINDS) * 2))
        if notes.get("hashseed:distinct-set-orders", 0) < 2:
            out.append("the iteration order of a set of the label names is the same in every interpreter of the sweep")
        if notes.get("hashseed:interpreters", 0) != len(HASHSEEDS[self.tier]):
            out.append("hash-seed sweep incomplete")
        if self.tier == "thorough" and not notes.get("with:ok-4pts-3labels"):
            out.append("no selection on a 4-point graph")
        if self.tier == "thorough" and not any(k.startswith("with:ok") and k.endswith("-4labels") for k in notes):
            out.append("depth 2 never selected on a graph with an added label")
        return out

    def rule(self):
        return (
            "every labelled graph of the stated scope (all covering ordered mask families x edge sets x two opposite "
            "label-name orders) x every selection / removal / addition letter, each result compared exactly with a "
            "set-based reference; every labeller x every input size 1..120 x 3 input kinds x 2 dimensions; the whole "
            "depth-1 enumeration repeated in fresh interpreters under every PYTHONHASHSEED of the tier with "
            "per-case digests required to be identical"
        )

    def alphabet_sizes(self):
        gr = self.graph_roots()
        per_n = collections.Counter(r[1] for r in gr)
        return {
            "graph_roots": len(gr),
            "graph_roots_per_n": {str(k): v for k, v in sorted(per_n.items())},
            "families_per_n": {str(n): len(families(n)) for n in range(1, 4 if self.tier == "quick" else 5)},
            "edge_sets_n4": list(E4.keys()) if self.tier == "thorough" else [],
            "labellers": N_LABELLERS,
            "labeller_sizes": MAX_SIZE,
            "input_kinds": list(KINDS),
            "transform_letters": list(TRANSFORMS.keys()),
            "hash_seeds": list(HASHSEEDS[self.tier]),
            "sweep_roots": len(self.sweep_roots()),
            "label_names": list(NAMES),
        }

    def assumptions(self):
        return [
            "labelled graphs with more than %d points or more than 3 initial labels (4-5 after add_label) are not built" % (3 if self.tier == "quick" else 4),
            "n = 4 (thorough): 1-2 label families x every edge set, 3-label families x the 9 stated edge sets (E4), depth 1; n <= 3: every edge set",
            "depth 2 (thorough) chains operations on all variant A roots with n <= 3; deeper chains are not explored",
            "variant C (label names 'brow', 'eyebrow', 'eye': substrings of one another) is built for n <= 3 with the path edge set",
            "read-derive-read chains (read a label, derive by copy / add_label / remove_label / affine apply / in-place point edit, read again): quick on the path roots of variants A and C, thorough on every variant A root with n <= 3 and the variant C roots; not repeated in the hash-seed sweep",
            "add_label index forms are those numpy's mask[indices] = True accepts on the unchanged tree: list, int64 / int32 array, python int, boolean mask of the points' length; negative indices count from the end, one past either end (or a mask of another length) must raise IndexError; tuples are not letters (numpy reads a tuple as a multi-dimensional index: (0, 2) raises, () labels every point)",
            "scale letters (coordinates x1e-9 / x1e-6 / x1e6, offset 1e6 over a spread of ~1, points differing relatively by 1e-7; every edge weight 1e-9 / 1e-6 / 1e6 / 3 / 1+1e-9) on n = 2 (every family) and n = 3 (1-2 label families) with the complete graph; every comparison stays exact (selection only re-indexes: the result at scale s is the reference computed from the scaled payload itself, edge weights included)",
            "large-size letter: a %d-point path under 3 (2) overlapping bands of labels with structured index sets" % BIG_N,
            "[interp] a permuted with_labels request must give the right content deterministically; its label order is not judged",
            "[interp] without_labels ignoring an unknown label, and any request that selects no point raising, are accepted",
            "add_label with an existing name: the mask is replaced in place, refused (ValueError) iff a point would be left without a label (D27, fixed)",
            "labeller inputs are pairwise distinct points (jittered lattice); sizes above %d are not tried" % MAX_SIZE,
            "hash-seed sweep: quick repeats the whole quick enumeration; thorough repeats n <= 3 with the empty / path / complete edge sets and the 1-2 label families of n = 4; labeller sizes in the sweep: 1, N-1, N, N+1, %d" % MAX_SIZE,
            "the two bounding-box labellers construct new corner points and are outside the re-indexing clause",
        ]


def _describe(r):
    try:
        return "%s labels=%s" % (type(r).__name__, _lab(read_graph(r)[3]) if hasattr(r, "labels") else None)
    except Exception:  # noqa
        return type(r).__name__


# ------------------------------------------------------------------------------------------------
# hash-seed sweep: parent side
# ------------------------------------------------------------------------------------------------
def _spawn(args, hashseed, timeout=3000):
    env = dict(os.environ)
    env["PYTHONHASHSEED"] = str(hashseed)
    env["C15_NO_RESPAWN"] = "1"
    p = subprocess.run([sys.executable, "-m", "mc.checks.c15"] + list(args), cwd=VERIF, env=env, capture_output=True, text=True, timeout=timeout)
    for line in p.stdout.splitlines():
        if line.startswith("C15SWEEP "):
            return json.loads(line[len("C15SWEEP ") :])
    raise HarnessError("sweep subprocess failed (PYTHONHASHSEED=%s, args=%s, rc=%s): %s" % (hashseed, args[:4], p.returncode, (p.stderr or p.stdout)[-800:]))


def hash_seed_sweep(tier, seed, jobs):
    from concurrent.futures import ThreadPoolExecutor

    from mc.runner import _tuplify

    seeds = HASHSEEDS[tier]
    nshards = max(1, -(-jobs // len(seeds)))
    tasks = [(h, s) for s in range(nshards) for h in seeds]
    t0 = time.time()
    errors, records = [], []
    notes = collections.Counter()
    results = {}

    def run(task):
        h, s = task
        try:
            return task, _spawn(["sweep", tier, str(seed), str(s), str(nshards)], h)
        except Exception as e:  # noqa
            return task, {"error": "%s: %s" % (type(e).__name__, e)}

    with ThreadPoolExecutor(max_workers=max(1, jobs)) as ex:
        for task, out in ex.map(run, tasks):
            results[task] = out
    per_seed = {h: {} for h in seeds}
    probes = {}
    n_ops = collections.Counter()
    sub_fail = 0
    for (h, s), out in sorted(results.items()):
        if "error" in out:
            errors.append("hash-seed sweep PYTHONHASHSEED=%d shard %d: %s" % (h, s, out["error"]))
            continue
        per_seed[h].update(out["digests"])
        probes[h] = out["probe"]
        n_ops[h] += out["n_ops"]
        for rec in out["failures"]:
            sub_fail += 1
            if len(records) < 24:
                rec = dict(rec)
                rec["root"] = _tuplify(rec["root"])
                rec["op"] = _tuplify(rec["op"]) if rec["op"] is not None else None
                rec["failures"] = [dict(f, detail=f["detail"][:1900] + " [PYTHONHASHSEED=%d]" % h) for f in rec["failures"]]
                records.append(rec)
    mismatched = []
    if not errors:
        ref = per_seed[seeds[0]]
        for h in seeds[1:]:
            if set(per_seed[h]) != set(ref):
                errors.append("hash-seed sweep: PYTHONHASHSEED=%d enumerated other roots than PYTHONHASHSEED=%d" % (h, seeds[0]))
        if not errors:
            for i in sorted(ref, key=int):
                vals = [per_seed[h][i] for h in seeds]
                if len(set(vals)) > 1:
                    h2 = [h for h in seeds if per_seed[h][i] != vals[0]][0]
                    mismatched.append((int(i), seeds[0], h2))
                else:
                    notes["hashseed:root-digests-identical"] += 1
    notes["hashseed:root-digests-differ"] += len(mismatched)
    if not mismatched:
        del notes["hashseed:root-digests-differ"]
    # locate the operation letter for the first mismatching roots (distinct operation names)
    seen_ops = set()
    for i, ha, hb in mismatched[:40]:
        if len(seen_ops) >= 6:
            break
        try:
            da = _spawn(["detail", tier, str(seed), str(i)], ha)
            db = _spawn(["detail", tier, str(seed), str(i)], hb)
        except Exception as e:  # noqa
            errors.append("hash-seed sweep detail: %s" % e)
            break
        for (oa, xa), (ob, xb) in zip(da["ops"], db["ops"]):
            if oa != ob:
                errors.append("hash-seed sweep: op alphabets differ between interpreters at root %r" % (da["root"],))
                break
            if xa != xb:
                if oa[0] in seen_ops:
                    break
                seen_ops.add(oa[0])
                records.append(
                    {
                        "root": _tuplify(da["root"]),
                        "history": [],
                        "context": [],
                        "op": _tuplify(oa),
                        "failures": [Failure(oa[0], "hash-seed-dependence", "PYTHONHASHSEED=%d gives %s; PYTHONHASHSEED=%d gives %s" % (ha, xa, hb, xb)).as_dict()],
                    }
                )
                break
    if mismatched and not seen_ops and not errors:
        errors.append("hash-seed sweep: root digests differ but no operation could be located (nondeterminism inside one hash seed?)")
    notes["hashseed:interpreters"] = len([h for h in seeds if h in probes])
    notes["hashseed:distinct-set-orders"] = len(set(tuple(v) for v in probes.values()))
    extra = {
        "hash_seeds": list(seeds),
        "processes": len(tasks),
        "roots_per_interpreter": len(per_seed[seeds[0]]),
        "ops_per_interpreter": int(n_ops[seeds[0]]) if n_ops else 0,
        "ops_total": int(sum(n_ops.values())),
        "set_iteration_orders_of_label_names": {str(h): v for h, v in sorted(probes.items())},
        "distinct_set_orders": len(set(tuple(v) for v in probes.values())),
        "roots_with_differing_digest": len(mismatched),
        "oracle_failures_inside_interpreters": sub_fail,
        "wall_s": round(time.time() - t0, 1),
    }
    return extra, records, errors, notes


# ------------------------------------------------------------------------------------------------
# hash-seed sweep: child side   (python -m mc.checks.c15 sweep|detail|replay ...)
# ------------------------------------------------------------------------------------------------
def _terminal(op):
    return tuple(op[:-1]) + ("T",)


def _enumerate_root(chk, root, detail=False):
    import traceback

    st = chk.build(root)
    records = []
    f0 = chk.check_root(st, root)
    if f0:
        records.append({"root": root, "history": [], "context": [], "op": None, "failures": [f.as_dict() for f in f0]})
    digs = []
    n = 0
    for op in chk.ops(st, 0):
        op = _terminal(op)
        chk.last_digest = None
        try:
            fails = chk.apply(st, op, verify=True)
        except HarnessError:
            raise
        except Exception as e:  # noqa
            fails = [Failure(op[0], "unexpected-exception", "%s: %s\n%s" % (type(e).__name__, e, traceback.format_exc()[-1200:]))]
            chk.last_digest = ("unexpected", type(e).__name__)
        n += 1
        if fails and len(records) < 4:
            records.append({"root": root, "history": [], "context": [], "op": op, "failures": [f.as_dict() for f in fails]})
        digs.append((op, repr(chk.last_digest)) if detail else repr(chk.last_digest))
    return digs, records, n


def _child(argv):
    import warnings

    warnings.simplefilter("ignore")
    mode, tier, seed = argv[0], argv[1], int(argv[2])
    chk = C15(tier, seed)
    chk.want_digest = True
    chk.sweep_mode = True
    probe = list(set(NAMES[:4]))
    if mode == "sweep":
        shard, nshards = int(argv[3]), int(argv[4])
        roots = chk.sweep_roots()
        digests, failures, n_ops = {}, [], 0
        for i, root in enumerate(roots):
            if i % nshards != shard:
                continue
            digs, recs, n = _enumerate_root(chk, root)
            n_ops += n
            digests[str(i)] = zlib.crc32(repr(digs).encode("utf8", "backslashreplace"))
            if len(failures) < 12:
                failures.extend(recs)
        out = {"probe": probe, "digests": digests, "failures": failures, "n_ops": n_ops}
    elif mode == "detail":
        spec = json.loads(argv[3])
        from mc.runner import _tuplify

        root = chk.sweep_roots()[spec] if isinstance(spec, int) else _tuplify(spec)
        digs, recs, n = _enumerate_root(chk, root, detail=True)
        out = {"root": root, "ops": digs}
    elif mode == "replay":
        rec = json.loads(argv[3])
        fails = chk._replay_here(rec)
        out = {"failures": [f.as_dict() for f in fails]}
    else:
        raise SystemExit("unknown mode %r" % mode)
    sys.stdout.write("C15SWEEP " + json.dumps(out, default=repr) + "\n")


CHECK = C15

if __name__ == "__main__":
    _child(sys.argv[1:])
