"""C10 - PCA models satisfy the defining identities, also after trimming.

Roots   : data letters (model kind, n, d, centred?, spectrum variant, input kind).  (n, d) lies on both
          sides of and exactly at n = d (`pca` picks the covariance or the Gram path by `d < n`), the
          spectrum is built as U diag(5,3,2,1.2,..) V^T (+ mean) so that it is well separated, models are
          vector backed (`PCAVectorModel`: ndarray in place / ndarray copied / list of rows) and object
          backed (`PCAModel` over PointClouds, Images, MaskedImages: list / iterator with n_samples).
Ops     : `n_active_components = k` (int, numpy int), `= f` (variance fraction), `trim_components(k)`,
          `trim_components(f)`, `trim_components()`, valid and invalid values.
Model   : SVD of the (centred) data matrix written with numpy only -> full eigenvalue list, principal axes,
          mean; bookkeeping state is the pair (kept, active).
Oracle  : on the root and after every step: the static identities on the active prefix (orthonormality,
          positive strictly descending eigenvalues = variance of the data along the component, mean,
          exact reconstruction of the training samples when nothing is discarded, project(instance(w)) == w,
          idempotent self-adjoint reconstruction, residuals orthogonal to the model), the bookkeeping
          identities (counts, eigenvalue prefix, original variance constant, kept + discarded = original,
          noise variance) and observational equality with a model built fresh with max_n_components = kept
          and the same number of active components.  Invalid values raise ValueError and change nothing.
"""
import numpy as np

from mc.core import Check, Failure
from mc.letters import rs
from mc.observe import obs_diff, obs_key, observe

SPECTRUM = np.array([5.0, 3.0, 2.0, 1.2, 0.7, 0.4, 0.25, 0.15, 0.09, 0.05])
GAP_MAX_RATIO = 0.7  # general-position guard: lambda[i+1] / lambda[i] <= this
FLOOR_MIN_RATIO = 1e-5  # ... and lambda[last] / lambda[0] >= this (menpo's floor is 1e-10)
F_TIE_MARGIN = 1e-6  # variance-fraction letters keep this distance to every cumulative ratio

# tolerances, sized on the unchanged tree over seeds 0..9, every data letter of the thorough tier, every
# (kept, active) pair.  Worst errors observed: orthonormality 5.6e-13, eigenvalue vs variance along the
# component 2.0e-12 (relative), eigenvalue vs SVD spectrum 2.0e-12, principal axes 2.8e-13, weights round
# trip 5.6e-13, reconstruction / residual identities 6.5e-13, training samples 1.7e-14, original variance
# 1.8e-15, mean 0.  Every tolerance keeps a margin >= 100x; the smallest mutant effect is ~1e-4.
TOL_ORTH = 1e-10
TOL_EIG_REL = 1e-9
TOL_VEC = 1e-9  # vectors reconstructed / projected, relative to the data scale
TOL_SCALAR_REL = 1e-11  # sums of the same eigenvalues taken in a different order

F_LETTERS = (0.5, 0.9, 0.99, 0.999999)
F_INVALID = (0.0, -0.25, 1.5)

# ---- argument forms -----------------------------------------------------------------------------------
# The same payload (values) presented in another legal representation.  A form is a letter only where the
# unchanged tree accepts it (probed on /repo, see `assumptions`); expectations are always computed in float64
# from the values.  Data forms (7th field of a root spec):
#   f64                       float64 C-contiguous ndarray / rows (the default)
#   i64 i32 i16 u8 bool       integer-valued payload stored with that dtype
#   f32                       float32-representable payload stored as float32 (menpo then computes in float32)
#   fortran strided readonly  float64 values in a Fortran-ordered / non-contiguous / read-only array
#   pylists int-pylists tuple rows given as python lists of floats / of ints, samples given as a tuple
INT_FORMS = {"i64": np.int64, "i32": np.int32, "i16": np.int16, "u8": np.uint8, "bool": np.bool_}
VALUE_FORMS = tuple(INT_FORMS) + ("int-pylists", "f32")  # forms that constrain the payload values
# float32 models: menpo's own arithmetic is single precision (worst errors observed over seeds 0..9, every
# float32 data letter, every (kept, active) pair: orthonormality 7.6e-7, eigenvalues 3.1e-6 relative, vectors
# 1.7e-6, mean 3.4e-8; margins >= 100x; the other forms stay below 4e-14 against the float64 tolerances)
F32_TOL = {"orth": 2e-4, "eig": 1e-3, "vec": 5e-4, "mean": 1e-5, "scalar": 1e-4, "tie": 1e-4, "bound": 5e-2}
F64_TOL = {"orth": TOL_ORTH, "eig": TOL_EIG_REL, "vec": TOL_VEC, "mean": 1e-13, "scalar": TOL_SCALAR_REL, "tie": F_TIE_MARGIN, "bound": 1e-3}

# forms of a weight vector / of a vector to project (integer-valued payload, so every form holds it exactly)
WEIGHT_FORMS = ("list", "tuple", "intlist", "npscalars", "i64", "i32", "i16", "i8", "f32", "f16", "readonly", "strided")
VECTOR_FORMS = ("i64", "i32", "i16", "i8", "f32", "f16", "readonly", "strided")
# forms of the scalar given to n_active_components / trim_components: op kind -> (base kind, constructor)
SCALAR_FORMS = {
    "actnp": ("act", np.int64),
    "act-i32": ("act", np.int32),
    "act-u8": ("act", np.uint8),
    "act-0d": ("act", lambda k: np.array(int(k))),
    "act-bool": ("act", bool),
    "actf-np": ("actf", np.float64),
    "actf-f32": ("actf", np.float32),
    "actf-f16": ("actf", np.float16),
    "trim-np": ("trim", np.int64),
    "trim-i32": ("trim", np.int32),
    "trim-u8": ("trim", np.uint8),
    "trimf-np": ("trimf", np.float64),
    "trimf-f32": ("trimf", np.float32),
    "trimf-f16": ("trimf", np.float16),
}
# numpy integer / floating scalars behave exactly like the python number of the same value; the only form
# with its own rule is the 0-d array (not a numpy scalar): beyond the number of components it may be refused
LENIENT_BEYOND = ("act-0d",)
NARROW_FLOAT_FORMS = ("actf-f32", "actf-f16", "trimf-f32", "trimf-f16")
NARROW_F_LETTERS = (0.9, 0.5, 0.0)


def as_form(a, form):
    """a 1-D float64 array of integer values in another representation."""
    a = np.asarray(a, dtype=float)
    if form == "list":
        return [float(v) for v in a]
    if form == "tuple":
        return tuple(float(v) for v in a)
    if form == "intlist":
        return [int(v) for v in a]
    if form == "npscalars":
        return [np.float64(v) for v in a]
    if form in ("i64", "i32", "i16", "i8", "f32", "f16"):
        return a.astype({"i64": np.int64, "i32": np.int32, "i16": np.int16, "i8": np.int8, "f32": np.float32, "f16": np.float16}[form])
    if form == "readonly":
        b = a.copy()
        b.setflags(write=False)
        return b
    if form == "strided":
        return np.repeat(a, 2)[::2]
    raise ValueError(form)


def quantise(x, form, r):
    """payload values that the form can hold exactly."""
    if form in ("i64", "i32", "i16", "int-pylists"):
        return np.round(x * 8.0)
    if form == "u8":
        return np.clip(np.round((x - x.min()) * 6.0), 0, 255)
    if form == "bool":
        return (r.rand(*x.shape) > 0.5).astype(float)
    if form == "f32":
        return x.astype(np.float32).astype(np.float64)
    return x


# ------------------------------------------------------------------------------------------------
# data letters and the reference model (numpy only)
# ------------------------------------------------------------------------------------------------
def reference(X, centre):
    """mean, eigenvalues (n-1 normalised, descending, numerically positive ones), principal axes."""
    n, d = X.shape
    mean = X.mean(axis=0) if centre else np.zeros(d)
    Xc = X - mean
    _, s, vt = np.linalg.svd(Xc, full_matrices=False)
    lam = s ** 2 / (n - 1)
    keep = (lam > 1e-8 * lam[0]) & (lam > 0)
    return mean, lam[keep], vt[keep]


def gen_data(n, d, centre, variant, seed, form="f64"):
    """n x d data matrix with a well separated spectrum (guarded), both for centred and uncentred use."""
    vform = form if form in VALUE_FORMS else "f64"  # forms that only change the container share the payload
    if variant == "const":
        # integer values: the mean of equal rows is exact, the centred data is exactly zero (with values whose
        # mean rounds, the residue of ~1e-16 passes the relative floor as a component of variance ~1e-31: noise)
        return np.tile(np.round(8.0 * rs(seed, "c10-const", n, d).rand(d) + 1.0), (n, 1))
    for attempt in range(3000):
        r = rs(seed, "c10-data", n, d, int(centre), variant, attempt)
        k = min(n - 1 if centre else n, d)
        if variant == "rankdef":
            k = max(1, k - 1)
        a = r.randn(n, k)
        if centre:
            a = a - a.mean(axis=0)  # columns orthogonal to the ones vector: centring keeps the spectrum
        u, _ = np.linalg.qr(a)
        v, _ = np.linalg.qr(r.randn(d, k))
        x = (u[:, :k] * (3.0 * SPECTRUM[:k])).dot(v[:, :k].T)
        if centre:
            x = x + 3.0 * r.rand(d) + 0.5
        elif variant != "rankdef":
            x = x + 0.4 * r.rand(d)  # uncentred models are built on data with a non-zero mean
        if vform != "f64":
            x = quantise(x, vform, rs(seed, "c10-quant", n, d, int(centre), vform, attempt))
        mean, lam, vt = reference(x, centre)
        if len(lam) != k:
            continue
        if k > 1 and np.max(lam[1:] / lam[:-1]) > GAP_MAX_RATIO:
            continue
        if lam[-1] / lam[0] < FLOOR_MIN_RATIO:
            continue
        return x
    raise RuntimeError("spectrum guard could not be satisfied for %r" % ((n, d, centre, variant),))


OBJ_DIMS = {
    # kind -> number of features
    "pc": 6,  # PointCloud, 3 points in 2-D
    "pc3": 6,  # PointCloud, 2 points in 3-D
    "img": 4,  # Image 1 x 2 x 2
    "img2": 6,  # Image 2 x 1 x 3
    "mimg": 6,  # MaskedImage 2 channels, 2 x 3 mask with 3 true pixels
}


def to_object(kind, x, dtype=float):
    from menpo.image import Image, MaskedImage
    from menpo.shape import PointCloud

    x = np.array(x, dtype=float).astype(dtype)
    if kind == "pc":
        return PointCloud(x.reshape(3, 2))
    if kind == "pc3":
        return PointCloud(x.reshape(2, 3))
    if kind == "img":
        return Image(x.reshape(1, 2, 2))
    if kind == "img2":
        return Image(x.reshape(2, 1, 3))
    if kind == "imgd":  # one-channel image with exactly len(x) pixels (most square factorisation)
        h = max(f for f in range(1, int(len(x) ** 0.5) + 1) if len(x) % f == 0)
        return Image(x.reshape(1, h, len(x) // h))
    if kind == "pcd":  # 2-D point cloud with len(x) / 2 points
        return PointCloud(x.reshape(-1, 2))
    if kind == "mimg":
        mask = np.array([[True, False, True], [False, True, False]])
        px = np.zeros((2, 2, 3), dtype=dtype)
        px[:, mask] = x.reshape(2, 3)
        return MaskedImage(px, mask=mask)
    raise ValueError(kind)


class Api(object):
    """Uniform vector-level access to the public API of vector backed and object backed models."""

    def __init__(self, kind, model):
        self.kind = kind
        self.m = model
        self.obj = kind != "vec"

    def _o(self, x):
        return to_object(self.kind, x)

    def _v(self, o, what, fails):
        if self.obj:
            tmpl = type(self.m.template_instance)
            if type(o) is not tmpl:
                fails.append(Failure(what, "result-class", "%s returned %s, template is %s" % (what, type(o).__name__, tmpl.__name__)))
            return np.array(o.as_vector(), dtype=float)
        return np.array(o, dtype=float).ravel()

    def mean(self, fails):
        return self._v(self.m.mean(), "mean", fails)

    def project(self, x):
        return np.array(self.m.project(self._o(x) if self.obj else np.array(x)), dtype=float)

    def instance(self, w, fails):
        return self._v(self.m.instance(np.array(w, dtype=float)), "instance", fails)

    def reconstruct(self, x, fails):
        return self._v(self.m.reconstruct(self._o(x) if self.obj else np.array(x)), "reconstruct", fails)

    def project_out(self, x, fails):
        return self._v(self.m.project_out(self._o(x) if self.obj else np.array(x)), "project_out", fails)


def present(X, form):
    """the payload as an ndarray of the given form (always a private copy)."""
    if form in INT_FORMS:
        return X.astype(INT_FORMS[form])
    if form == "f32":
        return X.astype(np.float32)
    if form == "fortran":
        return np.asfortranarray(X.copy())
    if form == "strided":
        big = np.zeros((2 * X.shape[0], 2 * X.shape[1]))
        big[::2, ::2] = X
        return big[::2, ::2]
    if form == "readonly":
        a = X.copy()
        a.setflags(write=False)
        return a
    return X.copy()


def construct(root, X, max_n=None):
    """the real constructor call of a data letter (always on private copies of the data)."""
    from menpo.model import PCAModel, PCAVectorModel

    kind, n, d, centre, variant, inkind = root[:6]
    form = root[6] if len(root) > 6 else "f64"
    centre = bool(centre)
    if kind == "vec":
        data = present(X, form)
        if inkind == "array":
            return PCAVectorModel(data, centre=centre, max_n_components=max_n)
        if inkind == "array-copy":
            return PCAVectorModel(data, centre=centre, max_n_components=max_n, inplace=False)
        rows = [row.copy() for row in data]
        if form == "pylists":
            rows = [[float(v) for v in row] for row in rows]
        elif form == "int-pylists":
            rows = [[int(v) for v in row] for row in rows]
        elif form == "tuple":
            rows = tuple(rows)
        if inkind == "list":
            return PCAVectorModel(rows, centre=centre, max_n_components=max_n)
        if inkind == "list-ns":
            return PCAVectorModel(rows, centre=centre, n_samples=n, max_n_components=max_n, inplace=False)
        if inkind == "list-ns-more":  # one sample more than n_samples: only the first n_samples count
            return PCAVectorModel(list(rows) + [2.0 * X[0] + 1.0], centre=centre, n_samples=n, max_n_components=max_n)
        raise ValueError(inkind)
    dtype = INT_FORMS.get(form, np.float32 if form == "f32" else float)
    objs = [to_object(kind, row, dtype) for row in X]
    if form == "tuple":
        objs = tuple(objs)
    if inkind == "list":
        return PCAModel(objs, centre=centre, max_n_components=max_n)
    if inkind == "iter":
        return PCAModel(iter(objs), centre=centre, n_samples=n, max_n_components=max_n)
    if inkind == "list-copy":
        return PCAModel(objs, centre=centre, max_n_components=max_n, inplace=False)
    if inkind == "iter-more":  # the iterator yields one sample more than n_samples
        return PCAModel(iter(list(objs) + [to_object(kind, 2.0 * X[0] + 1.0, dtype)]), centre=centre, n_samples=n, max_n_components=max_n)
    raise ValueError(inkind)


def legal(root):
    """argument forms that the unchanged tree accepts and handles (probed on /repo); everything else is
    not a letter (see `assumptions` for what is left out and why)."""
    kind, n, d, centre, variant, inkind = root[:6]
    form = root[6] if len(root) > 6 else "f64"
    inplace = inkind in ("array", "list", "iter")
    if form == "readonly" and inplace:
        return False
    if form == "f32" and centre and d >= n:
        return False  # single-precision noise on the null direction of the Gram matrix passes the 1e-10 floor
    if form in ("pylists", "int-pylists") and not (kind == "vec" and inkind.startswith("list")):
        return False
    if form == "tuple" and not inkind.startswith("list"):
        return False
    if form in ("fortran", "strided", "readonly") and not (kind == "vec" and inkind.startswith("array")):
        return False
    return True


def block_size():
    """the block size of the in-place product used by pca on the n <= d path, read from the code."""
    import inspect

    from menpo.math.linalg import dot_inplace_right

    return int(inspect.signature(dot_inplace_right).parameters["block_size"].default)


def boundary_roots():
    """one data letter per size / value boundary visible in the anchored code.
    variant 'block': feature counts at and around the block size of dot_inplace_right (static identities only);
    variant 'const': zero-variance data (no component at all; static identities only)."""
    B = block_size()
    out = []
    for d in (B - 1, B, B + 1, 2 * B):
        for c in (1, 0):
            for ink in ("array", "array-copy", "list"):
                out.append(("vec", 3, d, c, "block", ink))
            for ink in ("list", "list-copy"):
                out.append(("imgd", 3, d, c, "block", ink))
        if d % 2 == 0:
            out.append(("pcd", 2, d, 1, "block", "iter"))
    # smallest sizes: one feature, two samples, n = d = 2
    for n, d in ((2, 1), (3, 1), (2, 2)):
        for c in (1, 0):
            for ink in ("array", "array-copy"):
                out.append(("vec", n, d, c, "full", ink))
    # more samples supplied than n_samples
    out += [("vec", 5, 3, 1, "full", "list-ns-more"), ("vec", 3, 5, 0, "full", "list-ns-more"), ("pc", 4, 6, 1, "full", "iter-more"), ("img", 6, 4, 0, "full", "iter-more")]
    # zero variance: every sample equal
    out += [("vec", 3, 4, 1, "const", "array"), ("vec", 4, 2, 1, "const", "array-copy"), ("pc", 3, 6, 1, "const", "list")]
    return out


STATIC_VARIANTS = ("block", "const")

# ---- scale letters (8th field of a root spec): the same payload at another legal magnitude ----------------
#   "1e-6" "1e-9" "1e6"  every value multiplied by that factor (conditioning unchanged)
#   "offset1e6"          a common offset of 1e6 x the leading standard deviation added to every sample
#                        (centred models only: about the origin such data is ill conditioned)
SCALES = {"1e-6": 1e-6, "1e-9": 1e-9, "1e6": 1e6}
OFFSET_RATIO = 1e6
# an offset of R standard deviations costs log10(R) digits in the centred data itself; the reference, computed in
# float64 from the same payload, centres the same numbers, so the ordinary tolerances hold against it (worst error
# observed 5e-15); only the comparison with the model of the un-offset payload is widened by R
NEAR_TIE = 1e-6  # variance fractions this fraction of a gap away from a cumulative ratio (rounding is ~1e-12 of it)


def scale_roots():
    """a small subset of the data letters re-expressed at other magnitudes."""
    out = []
    for tag in ("1e-6", "1e-9", "1e6"):
        for n, d in ((3, 5), (4, 4), (6, 3)):
            for c in (1, 0):
                out.append(("vec", n, d, c, "full", "array", "f64", tag))
        for c in (1, 0):
            out.append(("pc", 4, 6, c, "full", "list", "f64", tag))
            out.append(("img", 6, 4, c, "full", "list", "f64", tag))
    for n, d in ((3, 5), (4, 4), (6, 3)):
        out.append(("vec", n, d, 1, "full", "array", "f64", "offset1e6"))
    out += [("pc", 4, 6, 1, "full", "list", "f64", "offset1e6"), ("img", 6, 4, 1, "full", "iter", "f64", "offset1e6")]
    # one large-size letter: a long sample axis (the long feature axis is the block-size letter d = 2B)
    out += [("vec", 2000, 3, 1, "block", "array"), ("vec", 2000, 3, 0, "block", "array-copy")]
    return out


def rescale(X, tag, lam0):
    if tag in SCALES:
        return X * SCALES[tag]
    if tag == "offset1e6":
        return X + OFFSET_RATIO * np.sqrt(lam0) * (1.0 + 0.25 * np.arange(X.shape[1]) / X.shape[1])
    return X


def form_roots():
    """data letters in other argument forms: cross products filtered by `legal`."""
    cand = []
    shapes = [(6, 3), (3, 5), (4, 4)]
    for form in ("i64", "i32", "i16", "u8", "bool"):
        for n, d in shapes:
            for c in (1, 0):
                cand.append(("vec", n, d, c, "full", "array-copy", form))
                cand.append(("vec", n, d, c, "full", "array", form))
                if form in ("i64", "u8", "bool") and (n, d) != (4, 4):
                    cand.append(("vec", n, d, c, "full", "list-ns", form))
    for n, d in shapes + [(8, 3)]:
        for c in (1, 0):
            for ink in ("array", "array-copy", "list"):
                cand.append(("vec", n, d, c, "full", ink, "f32"))
    for n, d in shapes[:2]:
        for c in (1, 0):
            for form in ("fortran", "strided", "readonly"):
                for ink in ("array", "array-copy"):
                    cand.append(("vec", n, d, c, "full", ink, form))
            for form in ("pylists", "tuple", "int-pylists"):
                for ink in ("list", "list-ns"):
                    cand.append(("vec", n, d, c, "full", ink, form))
    for kind, ns, forms in (("pc", (4, 8), ("i64", "i32", "tuple")), ("img", (3, 6), ("u8", "f32", "bool")), ("mimg", (8,), ("f32", "i16"))):
        for n in ns:
            for c in (1, 0):
                for form in forms:
                    for ink in ("list", "list-copy"):
                        cand.append((kind, n, OBJ_DIMS[kind], c, "full", ink, form))
    cand.append(("img", 6, 4, 0, "full", "iter", "f32"))
    return [r for r in cand if legal(r)]


# ------------------------------------------------------------------------------------------------
class C10(Check):
    id = "C10"
    title = "PCA models satisfy the defining identities, also after trimming"

    def depth(self):
        # every (kept, active) pair is reached after two letters (trim, then active); depth 3 therefore
        # verifies every outgoing transition of every canonical state, depth 4 adds histories behind them
        # (and the confluence re-expansion of merged states in the thorough tier)
        return 3 if self.tier == "quick" else 4

    # ------------------------------------------------------------------ roots
    def roots(self):
        shapes = [(3, 5), (4, 4), (5, 3), (6, 2), (2, 6), (8, 3)]
        out = []
        for n, d in shapes:
            for c in (1, 0):
                for ink in ("array", "array-copy", "list"):
                    out.append(("vec", n, d, c, "full", ink))
        # rank deficient data: the eigenvalue floor is exercised on the covariance path and on the Gram path
        out += [("vec", 6, 3, 1, "rankdef", "array"), ("vec", 6, 3, 0, "rankdef", "array-copy"), ("vec", 4, 6, 1, "rankdef", "array"), ("vec", 4, 4, 0, "rankdef", "list")]
        out.append(("vec", 5, 3, 1, "full", "list-ns"))
        # object backed: n below / at / above d
        for kind, ns in (("pc", (4, 6, 8)), ("img", (3, 4, 6)), ("mimg", (4, 8))):
            for n in ns:
                for c in (1, 0):
                    out.append((kind, n, OBJ_DIMS[kind], c, "full", "list"))
        out += [("pc", 8, 6, 1, "full", "iter"), ("img", 3, 4, 0, "full", "iter"), ("mimg", 6, 6, 1, "full", "iter"), ("pc", 4, 6, 1, "full", "list-copy")]
        out += form_roots()
        out += boundary_roots()
        out += scale_roots()
        if self.tier == "thorough":
            more = [(2, 2), (3, 1), (2, 1), (3, 3), (7, 9), (9, 7), (8, 8), (10, 4), (4, 10), (9, 10), (11, 10)]
            for n, d in more:
                for c in (1, 0):
                    for ink in ("array", "array-copy"):
                        out.append(("vec", n, d, c, "full", ink))
            out += [("vec", 9, 8, 1, "rankdef", "array"), ("vec", 8, 9, 0, "rankdef", "array"), ("vec", 8, 8, 1, "rankdef", "list")]
            for kind, ns in (("pc3", (5, 6, 7, 9)), ("img2", (4, 6, 7, 9)), ("mimg", (5, 7, 9)), ("pc", (5, 7, 10))):
                for n in ns:
                    for c in (1, 0):
                        for ink in ("list", "iter"):
                            out.append((kind, n, OBJ_DIMS[kind], c, "full", ink))
        return out

    # ------------------------------------------------------------------ state
    def build(self, root):
        kind, n, d, centre, variant, inkind = root[:6]
        form = root[6] if len(root) > 6 else "f64"
        tol = F32_TOL if form == "f32" else F64_TOL
        X = gen_data(n, d, bool(centre), variant, self.seed, form)
        stag = root[7] if len(root) > 7 else "1"
        X0 = X
        if stag != "1":
            X = rescale(X0, stag, reference(X0, bool(centre))[1][0])
        mean, lam, vt = reference(X, bool(centre))
        model = construct(root, X)
        K = len(lam)
        tot = float(lam.sum())
        cum = np.cumsum(lam) / tot if K else np.zeros(0)
        # variance-fraction letters moved off cumulative-ratio ties (payload depends on the data letter)
        fmap = {}
        for f in F_LETTERS if K else ():
            g = f
            while np.min(np.abs(cum - g)) < tol["tie"]:
                g -= 3 * tol["tie"]
            fmap[f] = g
        # variance fractions given as numpy float32 / float16 scalars: the model sees the value the scalar holds
        for skind in NARROW_FLOAT_FORMS if K else ():
            ctor = SCALAR_FORMS[skind][1]
            for f in NARROW_F_LETTERS:
                h = f
                g = float(ctor(h))
                while g > 0 and np.min(np.abs(cum - g)) < max(tol["tie"], 1e-5):
                    h -= 0.004
                    g = float(ctor(h))
                fmap["%s:%r" % (skind, f)] = (h, g)
        # near ties: a fraction NEAR_TIE of a gap below / above the first and the last interior cumulative ratio
        if K >= 2 and form == "f64" and stag == "1":
            for i in sorted(set([0, K - 2])):
                fmap["t%d-" % i] = float(cum[i] - NEAR_TIE * (cum[i] - (cum[i - 1] if i else 0.0)))
                fmap["t%d+" % i] = float(cum[i] + NEAR_TIE * (cum[i + 1] - cum[i]))
        # boundary letters: just below and just above every cumulative variance ratio of the original spectrum
        # (one letter per case split of the fraction rule; they stay meaningful after trimming, where a rule
        # that normalised by the kept instead of the original variance would count differently)
        for i in range(K):
            lo = cum[i] - tol["bound"] * (cum[i] - (cum[i - 1] if i else 0.0))
            fmap["b%d-" % i] = float(lo)
            if i + 1 < K:
                fmap["b%d+" % i] = float(cum[i] + tol["bound"] * (cum[i + 1] - cum[i]))
        r = rs(self.seed, "c10-probe", n, d, centre, variant, form)
        scale = float(np.abs(X).max())
        probes = [mean + scale * r.randn(d), scale * r.randn(d), X[0].copy(), X[-1].copy()]
        wrand = r.randn(K)
        return {
            "root": root,
            "kind": kind,
            "form": form,
            "stag": stag,
            "X0": X0,
            "reduced": form != "f64" or stag != "1",
            "tol": tol,
            "X": X,
            "centre": bool(centre),
            "mean": mean,
            "lam": lam,
            "vt": vt,
            "K": K,
            "tot": tot,
            "fmap": fmap,
            "scale": scale,
            "probes": probes,
            "wrand": wrand,
            "m": model,
            "kept": K,
            "active": K,
        }

    def canon(self, st):
        o = observe(st["m"])
        # sums over the discarded eigenvalues depend on the order in which they were trimmed (last bits):
        # they are compared with the model by the step oracle and kept out of the key
        for name in ("original_variance", "noise_variance"):
            o.pop(name, None)
        return (st["kept"], st["active"], obs_key(o))

    # ------------------------------------------------------------------ alphabet
    def ops(self, st, level):
        K = st["K"]
        out = []
        if st.get("root") and st["root"][4] in STATIC_VARIANTS:
            return out  # size / value boundary letters: static identities only
        if self.tier == "quick" and st.get("reduced") and level >= 2:
            # data letters in other argument forms: every (kept, active) state is reached and verified
            # (two letters); the third level is left to the float64 letters and to the thorough tier
            return out
        for k in range(-1, K + 2):
            out.append(("act", k))
        # the same values given as other scalar forms (the scalar never meets the data: in the quick tier
        # they are paired with the float64 data letters only)
        scalar_forms = self.tier != "quick" or not st.get("reduced")
        if scalar_forms:
            for k in sorted(set([0, 1, K, K + 1])):
                out.append(("actnp", k))
            for kind in ("act-i32", "act-u8", "act-0d"):
                for k in (0, 1, K + 1):
                    out.append((kind, k))
            out += [("act-bool", 1), ("act-bool", 0)]
            for f in (0.9, 0.999999, 0.0):
                out.append(("actf-np", f))
            for kind in ("actf-f32", "actf-f16"):
                for f in NARROW_F_LETTERS:
                    out.append((kind, f))
        for f in F_LETTERS + F_INVALID:
            out.append(("actf", f))
        bounds = ["b%d%s" % (i, sgn) for i in range(K) for sgn in "-+" if "b%d%s" % (i, sgn) in st["fmap"]]
        if st.get("root") and st["root"][0] == "vec" and st["root"][5] == "array":
            # near-tie fractions on a small subset of the data letters
            bounds += ["t%d%s" % (i, sgn) for i in range(K) for sgn in "-+" if "t%d%s" % (i, sgn) in st["fmap"]]
        for b in bounds:
            out.append(("actf", b))
        out.append(("trim", None))
        for k in range(0, K + 2):
            out.append(("trim", k))
        for f in F_LETTERS + (0.0, 1.5):
            out.append(("trimf", f))
        for b in bounds:
            out.append(("trimf", b))
        if scalar_forms:
            for kind in ("trim-np", "trim-i32", "trim-u8"):
                for k in (0, 1, K + 1):
                    out.append((kind, k))
            for f in (0.9, 0.0):
                out.append(("trimf-np", f))
            for kind in ("trimf-f32", "trimf-f16"):
                for f in NARROW_F_LETTERS:
                    out.append((kind, f))
        return out

    # ------------------------------------------------------------------ model of one step
    def _expect(self, st, op):
        """-> list of allowed outcomes; an outcome is 'raise' or (kept, active)."""
        kind, a = op
        form_kind = kind
        kind = SCALAR_FORMS[kind][0] if kind in SCALAR_FORMS else kind
        numpy_int = form_kind in LENIENT_BEYOND
        kept, active = st["kept"], st["active"]
        lam, tot = st["lam"], st["tot"]

        def by_fraction(f):
            g = st["fmap"]["%s:%r" % (form_kind, f)][1] if form_kind in NARROW_FLOAT_FORMS else st["fmap"].get(f, f)
            cum = np.cumsum(lam[:kept]) / tot
            if not (0.0 < g <= cum[-1] + 0.0):
                return None
            return int(np.sum(cum < g)) + 1

        if kind == "act" and not numpy_int:
            return ["raise"] if a < 1 else [(kept, min(a, kept))]
        if kind == "act":
            if a < 1:
                return ["raise"]
            if a > kept:
                # a 0-d array (not a numpy scalar) beyond the number of components: refusing and clamping
                # are both compatible with the property (nothing may change except the active count)
                return ["raise", (kept, kept)]
            return [(kept, a)]
        if kind == "actf":
            k = by_fraction(a)
            return ["raise"] if k is None else [(kept, k)]
        if kind == "trim":
            if a is None:
                return [(active, active)]
            if a < 1:
                return ["raise"]
            if numpy_int and a > kept:
                return ["raise", (kept, kept)]
            k = min(a, kept)
            return [(k, k)]
        if kind == "trimf":
            k = by_fraction(a)
            return ["raise"] if k is None else [(k, k)]
        raise ValueError(op)

    def _do(self, st, op):
        m = st["m"]
        kind, a = op
        if kind in SCALAR_FORMS:
            base, ctor = SCALAR_FORMS[kind]
            if kind in NARROW_FLOAT_FORMS:
                v = ctor(st["fmap"]["%s:%r" % (kind, a)][0])
            else:
                v = ctor(st["fmap"].get(a, a)) if base in ("actf", "trimf") else ctor(a)
            if base in ("act", "actf"):
                m.n_active_components = v
            else:
                m.trim_components(v)
        elif kind == "act":
            m.n_active_components = int(a)
        elif kind == "actf":
            m.n_active_components = float(st["fmap"].get(a, a))
        elif kind == "trim":
            if a is None:
                m.trim_components()
            else:
                m.trim_components(int(a))
        elif kind == "trimf":
            m.trim_components(float(st["fmap"].get(a, a)))
        else:
            raise ValueError(op)

    # ------------------------------------------------------------------ step
    def apply(self, st, op, verify=True):
        kind = op[0]
        fails = []
        if isinstance(op[1], str) and op[1].startswith("t"):
            self.note("%s:near-tie" % kind)
        allowed = self._expect(st, op)
        before = observe(st["m"]) if verify else None
        old = (st["kept"], st["active"])
        try:
            self._do(st, op)
            raised = None
        except ValueError as e:
            raised = e
        if raised is not None:
            self.note("%s:%s" % (kind, self._raise_class(st, op)))
            if "raise" not in allowed:
                if verify:
                    fails.append(Failure(kind, "unexpected-refusal", "op %r in state kept=%d active=%d: expected %r, raised ValueError(%s)" % (op, old[0], old[1], allowed, str(raised)[:120])))
                return fails
            if verify:
                diff = obs_diff(before, observe(st["m"]))
                if diff:
                    fails.append(Failure(kind, "refused-op-changed-model", "op %r raised ValueError but the model changed: %s" % (op, diff)))
            return fails
        new = [x for x in allowed if x != "raise"]
        if not new:
            if verify:
                fails.append(Failure(kind, "invalid-value-accepted", "op %r in state kept=%d active=%d must raise ValueError; now n_components=%r n_active=%r" % (op, old[0], old[1], st["m"].n_components, st["m"].n_active_components)))
            return fails
        st["kept"], st["active"] = new[0]
        self.note("%s:%s" % (kind, self._ok_class(st, old, new[0], op)))
        if verify:
            fails.extend(self._bookkeeping(st, kind))
            if not fails:
                fails.extend(self._identities(st, kind))
            if not fails:
                fails.extend(self._fresh(st, kind))
        return fails

    def _raise_class(self, st, op):
        kind, a = op
        base = SCALAR_FORMS[kind][0] if kind in SCALAR_FORMS else kind
        if base in ("actf", "trimf"):
            g = st["fmap"]["%s:%r" % (kind, a)][1] if kind in NARROW_FLOAT_FORMS else st["fmap"].get(a, a)
            return "raised-nonpositive" if g <= 0 else "raised-above-kept-variance"
        if kind in LENIENT_BEYOND and a >= 1:
            return "raised-above-kept"
        return "raised-below-one"

    def _ok_class(self, st, old, new, op):
        kind, a = op
        kind = SCALAR_FORMS[kind][0] if kind in SCALAR_FORMS else kind
        if kind == "act":
            if isinstance(a, int) and a > old[0]:
                return "clamped"
            return "set-lower" if new[1] < old[0] else "set-all"
        if kind == "actf":
            return "set-lower" if new[1] < old[0] else "set-all"
        if new[0] < old[0]:
            return "trimmed-again" if old[0] < st["K"] else "trimmed"
        return "noop"

    # ------------------------------------------------------------------ oracles
    def check_root(self, st, root):
        kind, n, d = root[0], root[1], root[2]
        fails = []
        m = st["m"]
        self.note("static:%s" % ("cov-path" if d < n else "gram-path"))
        if n == d:
            self.note("static:n-eq-d")
        if st["K"] < min(n, d):
            self.note("static:floor-dropped-directions")
        self.note("static:%s-%s" % ("object" if kind != "vec" else "vector", "centred" if st["centre"] else "uncentred"))
        self.note("static:K=%d" % st["K"])
        self.note("form:%s-%s-%s" % (st["form"], "object" if kind != "vec" else "vector", "centred" if st["centre"] else "uncentred"))
        if root[5] in ("array", "list", "iter"):
            self.note("form-inplace:%s" % st["form"])
        B = block_size()
        if root[4] == "block":
            where = "below" if d < B else "at" if d == B else "above" if d < 2 * B else "at-twice"
            self.note("boundary:block-size-%s-%s-%s" % (where, "inplace" if root[5] in ("array", "list", "iter") else "copy", "object" if kind != "vec" else "vector"))
        if d == 1:
            self.note("boundary:one-feature")
        if n == 2:
            self.note("boundary:two-samples")
        if root[5] in ("list-ns-more", "iter-more"):
            self.note("boundary:more-samples-than-n_samples")
        if n >= 1000:
            self.note("boundary:many-samples")
        if st["stag"] != "1":
            self.note("scale:%s-%s-%s" % (st["stag"], "object" if kind != "vec" else "vector", "cov" if d < n else "gram"))
        if root[4] == "const":
            return self._zero_variance(st)
        if m.n_components != st["K"]:
            fails.append(Failure("build", "component-count", "n_components=%r but the data has %d directions of positive variance" % (m.n_components, st["K"])))
            return fails
        if m.n_active_components != st["K"]:
            fails.append(Failure("build", "active-count", "a fresh model has %r active of %r components" % (m.n_active_components, m.n_components)))
            return fails
        if kind == "vec" and int(m.n_samples) != n:
            fails.append(Failure("build", "n_samples", "n_samples=%r for %d rows" % (m.n_samples, n)))
        fails.extend(self._bookkeeping(st, "build"))
        if not fails:
            fails.extend(self._identities(st, "build"))
        if not fails:
            fails.extend(self._fresh(st, "build"))
        if not fails and st["stag"] != "1":
            fails.extend(self._equivariance(st, root))
        if not fails:
            # max_n_components one beyond the number of components: nothing to trim
            beyond = construct(root, st["X"], max_n=int(st["K"]) + 1)
            diff = obs_diff(observe(m), observe(beyond))
            self.note("boundary:max_n_components-beyond")
            if diff:
                fails.append(Failure("build", "max-n-components-beyond-count", "built with max_n_components=K+1 differs from the plain build at %s" % diff))
        return fails

    def _equivariance(self, st, root):
        """the model of the rescaled payload is the rescaled model of the payload: eigenvalues x s^2, mean x s,
        same axes (a common offset: same eigenvalues and axes, mean + offset)."""
        m = st["m"]
        base = construct(root[:7], st["X0"])
        fails = []
        if base.n_components != m.n_components:
            return [Failure("build", "scale-equivariance", "%d components at scale %s, %d for the same payload at scale 1" % (m.n_components, st["stag"], base.n_components))]
        s = SCALES.get(st["stag"], 1.0)
        wide = OFFSET_RATIO if st["stag"] == "offset1e6" else 1.0
        tol = {"eig": st["tol"]["eig"] * wide, "vec": st["tol"]["vec"] * wide}
        e_eig = np.max(np.abs(np.asarray(m.eigenvalues, float) / s ** 2 - np.asarray(base.eigenvalues, float)) / np.asarray(base.eigenvalues, float))
        e_ax = np.max(np.abs(np.abs(np.sum(np.asarray(m.components, float) * np.asarray(base.components, float), axis=1)) - 1.0))
        side = []
        mv, mv0 = Api(st["kind"], m).mean(side), Api(st["kind"], base).mean(side)
        shift = (st["X"][0] - st["X0"][0]) if st["stag"] == "offset1e6" and st["centre"] else 0.0
        e_mean = np.max(np.abs(mv - (mv0 * s + shift))) / st["scale"]
        for clause, err, t in (("eigenvalues", e_eig, tol["eig"]), ("axes", e_ax, tol["vec"]), ("mean", e_mean, 1e-12)):
            if not err <= t:
                fails.append(Failure("build", "scale-equivariance-" + clause, "scale letter %s: error %.3g > %.3g against the model of the same payload at scale 1" % (st["stag"], err, t)))
        return fails + side

    def _zero_variance(self, st):
        """every sample equal: no direction of positive variance, the mean is the sample, everything
        reconstructs to the mean."""
        m = st["m"]
        api = Api(st["kind"], m)
        fails = []
        self.note("boundary:zero-variance-data")
        if m.n_components != 0 or m.n_active_components != 0 or np.asarray(m.eigenvalues).shape != (0,):
            return [Failure("build", "component-count", "zero-variance data: n_components=%r n_active=%r eigenvalues=%r" % (m.n_components, m.n_active_components, m.eigenvalues))]
        x0 = st["X"][0]
        mv = api.mean(fails)
        if np.max(np.abs(mv - x0)) > 1e-13 * st["scale"]:
            fails.append(Failure("build", "mean-is-sample-mean", "mean %r, every sample is %r" % (mv, x0)))
        for x in (x0, st["probes"][1]):
            rec = api.reconstruct(x, fails)
            if np.max(np.abs(rec - mv)) > 0 or api.project(x).shape != (0,):
                fails.append(Failure("build", "reconstruct-is-projection-on-leading-axes", "a model without components reconstructs %r to %r (mean %r)" % (x, rec, mv)))
            if np.max(np.abs(api.project_out(x, fails) - (x - mv))) > 1e-13 * st["scale"]:
                fails.append(Failure("build", "project-out-is-residual", "project_out(x) != x - mean"))
        if float(m.original_variance()) != 0.0 or float(m.variance()) != 0.0:
            fails.append(Failure("build", "original-variance-constant", "zero-variance data: original_variance()=%r variance()=%r" % (m.original_variance(), m.variance())))
        return fails

    def _bookkeeping(self, st, where):
        m = st["m"]
        kept, active = st["kept"], st["active"]
        lam, tot = st["lam"], st["tot"]
        d = st["X"].shape[1]
        TOL_EIG_REL = st["tol"]["eig"]
        f = []
        if m.n_components != kept:
            f.append(Failure(where, "component-count", "n_components=%r, model kept=%d" % (m.n_components, kept)))
        if m.n_active_components != active:
            f.append(Failure(where, "active-count", "n_active_components=%r, model active=%d (kept=%d)" % (m.n_active_components, active, kept)))
        if f:
            return f
        comps = np.asarray(m.components)
        eig = np.asarray(m.eigenvalues)
        if comps.shape != (active, d):
            f.append(Failure(where, "components-shape", "components shape %r expected %r" % (comps.shape, (active, d))))
        if eig.shape != (active,):
            f.append(Failure(where, "eigenvalues-shape", "eigenvalues shape %r expected %r" % (eig.shape, (active,))))
        if f:
            return f
        err = np.max(np.abs(eig - lam[:active]) / lam[:active])
        if not err <= TOL_EIG_REL:
            f.append(Failure(where, "eigenvalues-are-prefix", "eigenvalues %r expected prefix %r (rel err %.3g)" % (eig, lam[:active], err)))
        ov = float(m.original_variance())
        if not abs(ov - tot) <= TOL_EIG_REL * tot:
            f.append(Failure(where, "original-variance-constant", "original_variance()=%r, variance of the data=%r (kept=%d active=%d)" % (ov, tot, kept, active)))
        var = float(m.variance())
        disc = float(lam[active:].sum())
        if not abs(var + disc - ov) <= TOL_EIG_REL * tot:
            f.append(Failure(where, "kept-plus-discarded", "variance()=%r + discarded %r != original_variance()=%r" % (var, disc, ov)))
        nv = float(m.noise_variance())
        exp_nv = float(lam[active:].mean()) if active < len(lam) else 0.0
        if not abs(nv - exp_nv) <= TOL_EIG_REL * tot:
            f.append(Failure(where, "noise-variance", "noise_variance()=%r expected mean of discarded eigenvalues %r" % (nv, exp_nv)))
        vr = float(m.variance_ratio())
        if not abs(vr - lam[:active].sum() / tot) <= TOL_EIG_REL:
            f.append(Failure(where, "variance-ratio", "variance_ratio()=%r expected %r" % (vr, lam[:active].sum() / tot)))
        return f

    def measure(self, st):
        """[(clause, error, tolerance, detail)] of the static identities on the active prefix."""
        api = Api(st["kind"], st["m"])
        m = st["m"]
        X, mean, lam, vt = st["X"], st["mean"], st["lam"], st["vt"]
        n, d = X.shape
        a = st["active"]
        scale = st["scale"]
        TOL_ORTH, TOL_EIG_REL, TOL_VEC = st["tol"]["orth"], st["tol"]["eig"], st["tol"]["vec"]
        out = []
        side = []
        C = np.array(m.components, dtype=float)
        eig = np.array(m.eigenvalues, dtype=float)
        # orthonormal components
        out.append(("orthonormal-components", np.max(np.abs(C.dot(C.T) - np.eye(a))), TOL_ORTH, "C C^T - I"))
        # eigenvalues positive, strictly descending
        out.append(("eigenvalues-positive", 0.0 if np.all(eig > 0) else 1.0, 0.5, "eigenvalues %r" % (eig,)))
        out.append(("eigenvalues-descending", 0.0 if np.all(np.diff(eig) < 0) else 1.0, 0.5, "eigenvalues %r" % (eig,)))
        # mean
        mv = api.mean(side)
        if st["centre"]:
            out.append(("mean-is-sample-mean", np.max(np.abs(mv - mean)) / scale, st["tol"]["mean"], "mean %r expected %r" % (mv, mean)))
        else:
            out.append(("mean-is-zero-when-uncentred", float(np.max(np.abs(mv))), 0.0, "mean %r" % (mv,)))
        # eigenvalue = (n-1)-normalised variance of the data along the component (about the model mean)
        proj = (X - mean).dot(C.T)
        var = (proj ** 2).sum(axis=0) / (n - 1)
        out.append(("eigenvalue-is-variance-along-component", np.max(np.abs(var - eig) / eig), TOL_EIG_REL, "variance along components %r eigenvalues %r" % (var, eig)))
        # components are the principal axes (sign free), the reference being the SVD of the data
        out.append(("components-are-principal-axes", np.max(np.abs(np.abs(np.sum(C * vt[:a], axis=1)) - 1.0)), TOL_VEC, "|<c_i, v_i>| %r" % (np.abs(np.sum(C * vt[:a], axis=1)),)))
        P = vt[:a].T.dot(vt[:a])
        # reconstruction
        all_kept = a == len(lam)
        if all_kept:
            err = 0.0
            for x in X:
                err = max(err, np.max(np.abs(api.reconstruct(x, side) - x)) / scale)
            out.append(("training-sample-reconstructed-exactly", err, TOL_VEC, "max abs error / data scale"))
            self.note("identity:all-components-reconstruct")
        else:
            self.note("identity:on-proper-prefix")
        # weights round trip
        # (weight letters are in units of the leading standard deviation, errors relative to the weights)
        sd = float(np.sqrt(lam[0]))
        wl = [sd * np.eye(a)[i] for i in range(a)]
        mixed = sd * np.array([(-1.0) ** j * (0.5 + 0.3 * j) for j in range(a)])
        wl += [mixed, st["wrand"][:a] * sd]
        err = 0.0
        for w in wl:
            inst = api.instance(w, side)
            # relative to the numbers involved: the weights or, when the mean dominates, the instance itself
            err = max(err, np.max(np.abs(api.project(inst) - w)) / max(sd, np.max(np.abs(w)), np.max(np.abs(inst))))
        out.append(("project-instance-returns-weights", err, TOL_VEC, "%d weight letters" % len(wl)))
        if a >= 2:
            w = mixed[: a - 1]
            got = api.project(api.instance(w, side))
            out.append(("project-instance-returns-weights-short", np.max(np.abs(got - np.concatenate([w, [0.0]]))) / max(sd, scale), TOL_VEC, "short weight vector %r gave %r" % (w, got)))
        # boundary: no weight at all -> the mean, which projects to zero weights
        e0 = api.instance(np.zeros(0), side)
        out.append(("empty-weights-give-the-mean", max(np.max(np.abs(e0 - mean)) / scale, float(np.max(np.abs(api.project(e0)))) / max(sd, scale)), TOL_VEC, "instance([])"))
        self.note("boundary:empty-weights")
        # instance is mean + w C
        w = mixed
        out.append(("instance-is-mean-plus-combination", np.max(np.abs(api.instance(w, side) - (mean + w.dot(vt[:a] * np.sign(np.sum(C * vt[:a], axis=1))[:, None])))) / scale, TOL_VEC, "instance(w)"))
        # projections
        e_idem = e_ref = e_res = e_po = e_def = 0.0
        recs = []
        for x in st["probes"]:
            r1 = api.reconstruct(x, side)
            r2 = api.reconstruct(r1, side)
            recs.append(r1)
            e_idem = max(e_idem, np.max(np.abs(r2 - r1)) / scale)
            e_ref = max(e_ref, np.max(np.abs(r1 - (mean + P.dot(x - mean)))) / scale)
            e_res = max(e_res, np.max(np.abs(C.dot(x - r1))) / scale)
            po = api.project_out(x, side)
            e_po = max(e_po, np.max(np.abs(C.dot(po))) / scale)
            e_def = max(e_def, np.max(np.abs(po - (x - r1))) / scale)
        out.append(("reconstruct-idempotent", e_idem, TOL_VEC, ""))
        out.append(("reconstruct-is-projection-on-leading-axes", e_ref, TOL_VEC, ""))
        out.append(("reconstruction-residual-orthogonal", e_res, TOL_VEC, "C (x - reconstruct(x))"))
        out.append(("project-out-orthogonal-to-model", e_po, TOL_VEC, "C project_out(x)"))
        out.append(("project-out-is-residual", e_def, TOL_VEC, "project_out(x) - (x - reconstruct(x))"))
        # orthogonal projection = self adjoint: <P(x-m), y-m> == <x-m, P(y-m)>
        x, y = st["probes"][0], st["probes"][1]
        lhs = (recs[0] - mean).dot(y - mean)
        rhs = (x - mean).dot(recs[1] - mean)
        out.append(("reconstruct-self-adjoint", abs(lhs - rhs) / scale ** 2, TOL_VEC, "%r vs %r" % (lhs, rhs)))
        # object backed models: the *_vector entry points agree with the object entry points
        if api.obj:
            x = st["probes"][0]
            e = 0.0
            e = max(e, np.max(np.abs(np.asarray(m.project_vector(x.copy())) - api.project(x))))
            e = max(e, np.max(np.abs(np.asarray(m.reconstruct_vector(x.copy())).ravel() - recs[0])))
            e = max(e, np.max(np.abs(np.asarray(m.project_out_vector(x.copy())).ravel() - api.project_out(x, side))))
            e = max(e, np.max(np.abs(np.asarray(m.instance_vector(mixed)).ravel() - api.instance(mixed, side))))
            e = max(e, np.max(np.abs(np.asarray(m.mean_vector) - mv)))
            out.append(("vector-and-object-entry-points-agree", e, 0.0, ""))
        out.extend(self._argument_forms(st, api, side))
        return out, side

    def _argument_forms(self, st, api, side):
        """the same weights / the same vector given in another legal form give the same answer.  The payload
        is integer valued, so every form holds exactly the same numbers; the float64 answer itself is tied to
        the reference model by the clauses above."""
        m = st["m"]
        a = st["active"]
        d = st["X"].shape[1]
        tol = st["tol"]["vec"]
        out = []
        w = np.array([(-1.0) ** j * (2 + j % 3) for j in range(a)])
        x = np.clip(np.round(st["probes"][0] / st["scale"] * 15.0), -100, 100)  # |x| <= 100: exact in int8 and float16
        mag = max(1.0, float(np.max(np.abs(x))))
        if api.obj:
            inst = lambda wf: np.array(m.instance(wf).as_vector(), dtype=float)  # noqa
            proj, rec, pout = m.project_vector, m.reconstruct_vector, m.project_out_vector
        else:
            inst = lambda wf: np.array(m.instance(wf), dtype=float).ravel()  # noqa
            proj, rec, pout = m.project, m.reconstruct, m.project_out
        flat = lambda v: np.array(v, dtype=float).ravel()  # noqa
        ref_i = inst(w.copy())
        for form in WEIGHT_FORMS:
            got = inst(as_form(w, form))
            err = np.max(np.abs(got - ref_i)) / max(1.0, st["scale"])
            back = np.max(np.abs(flat(proj(got)) - w)) / (4.0 * max(1.0, st["scale"]))
            out.append(("weights-form-%s" % form, max(err, back), tol, "instance(weights as %s) vs instance(float64 weights); project(...) vs the weights" % form))
            self.note("argform:weights-%s" % form)
        ref = [flat(f(x.copy())) for f in (proj, rec, pout)]
        for form in VECTOR_FORMS:
            e = 0.0
            for f, r0 in zip((proj, rec, pout), ref):
                e = max(e, np.max(np.abs(flat(f(as_form(x, form))) - r0)) / mag)
            out.append(("vector-form-%s" % form, e, tol, "project / reconstruct / project_out of the vector as %s vs as float64" % form))
            self.note("argform:vector-%s" % form)
        if api.obj:
            # instances whose own arrays have another dtype
            ref = [api.project(x), api.reconstruct(x, side), api.project_out(x, side)]
            for form, dt in (("i64", np.int64), ("f32", np.float32)):
                o = to_object(st["kind"], x, dt)
                got = [np.array(m.project(o), dtype=float), api._v(m.reconstruct(o), "reconstruct", side), api._v(m.project_out(to_object(st["kind"], x, dt)), "project_out", side)]
                e = max(np.max(np.abs(g - r0)) for g, r0 in zip(got, ref)) / mag
                out.append(("instance-form-%s" % form, e, tol, "project / reconstruct / project_out of an instance with %s arrays" % form))
                self.note("argform:instance-%s" % form)
        return out

    def _identities(self, st, where):
        out, side = self.measure(st)
        fails = list(side)
        for clause, err, tol, detail in out:
            if not err <= tol:
                fails.append(Failure(where, clause, "error %.3g > %.3g (kept=%d active=%d) %s" % (err, tol, st["kept"], st["active"], detail)))
        return fails

    def _fresh(self, st, where):
        """the evolved model is observationally the model built with max_n_components=kept (+ active set)."""
        fresh = construct(st["root"], st["X"], max_n=int(st["kept"]))
        if st["active"] != st["kept"]:
            fresh.n_active_components = int(st["active"])
        a, b = observe(st["m"]), observe(fresh)
        skip = (".original_variance", ".noise_variance")
        diff = obs_diff(a, b, skip=skip)
        if diff is None:
            for name in ("original_variance", "noise_variance"):
                x, y = a.get(name), b.get(name)
                if not (isinstance(x, float) and isinstance(y, float) and abs(x - y) <= st["tol"]["scalar"] * st["tot"]):
                    diff = ".%s: %r vs %r" % (name, x, y)
                    break
        self.note("fresh:%s" % ("all-kept" if st["kept"] == st["K"] else "trimmed") + ("-all-active" if st["active"] == st["kept"] else "-some-inactive"))
        if diff:
            return [Failure(where, "same-as-built-with-that-many-components", "kept=%d active=%d: evolved vs fresh build differ at %s" % (st["kept"], st["active"], diff))]
        return []

    # ------------------------------------------------------------------ reporting
    def vacuity(self, notes, stats):
        need = [
            "static:cov-path",
            "static:gram-path",
            "static:n-eq-d",
            "static:floor-dropped-directions",
            "static:vector-centred",
            "static:vector-uncentred",
            "static:object-centred",
            "static:object-uncentred",
            "identity:all-components-reconstruct",
            "identity:on-proper-prefix",
            "act:set-lower",
            "act:set-all",
            "act:clamped",
            "act:raised-below-one",
            "actnp:set-lower",
            "actnp:raised-below-one",
            "actf:set-lower",
            "actf:set-all",
            "actf:raised-nonpositive",
            "actf:raised-above-kept-variance",
            "trim:trimmed",
            "trim:trimmed-again",
            "trim:noop",
            "trim:raised-below-one",
            "trimf:trimmed",
            "trimf:raised-above-kept-variance",
            "fresh:all-kept-all-active",
            "fresh:all-kept-some-inactive",
            "fresh:trimmed-all-active",
            "fresh:trimmed-some-inactive",
        ]
        # size / value boundaries
        for where in ("below", "at", "above", "at-twice"):
            need += ["boundary:block-size-%s-inplace-vector" % where, "boundary:block-size-%s-copy-vector" % where, "boundary:block-size-%s-inplace-object" % where]
        need += ["boundary:one-feature", "boundary:two-samples", "boundary:more-samples-than-n_samples", "boundary:zero-variance-data", "boundary:empty-weights", "boundary:max_n_components-beyond", "static:K=1"]
        # scale letters
        for tag in SCALES:
            need += ["scale:%s-vector-gram" % tag, "scale:%s-vector-cov" % tag, "scale:%s-object-gram" % tag, "scale:%s-object-cov" % tag]
        need += ["scale:offset1e6-vector-gram", "scale:offset1e6-vector-cov", "scale:offset1e6-object-gram", "scale:offset1e6-object-cov", "boundary:many-samples", "actf:near-tie", "trimf:near-tie"]
        # argument forms: every data form the tree accepts, every weight / vector / scalar form
        for form in INT_FORMS:
            need.append("form:%s-vector-centred" % form)
            need.append("form:%s-vector-uncentred" % form)
            need.append("form-inplace:%s" % form)
        need += ["form:f32-vector-centred", "form:f32-vector-uncentred"]
        for form in ("fortran", "strided", "readonly", "pylists", "int-pylists", "tuple"):
            need += ["form:%s-vector-centred" % form, "form:%s-vector-uncentred" % form]
        need += ["form:i64-object-centred", "form:i64-object-uncentred", "form:u8-object-centred", "form:f32-object-uncentred", "form:f32-object-centred", "form:tuple-object-centred", "form:bool-object-centred"]
        need += ["argform:weights-%s" % f for f in WEIGHT_FORMS] + ["argform:vector-%s" % f for f in VECTOR_FORMS]
        need += ["argform:instance-i64", "argform:instance-f32"]
        out = ["outcome %s never produced" % n for n in need if not notes.get(n)]
        for kind, (base, _) in sorted(SCALAR_FORMS.items()):
            done = [k for k in notes if k.startswith(kind + ":") and not k.startswith(kind + ":raised")]
            refused = [k for k in notes if k.startswith(kind + ":raised")]
            if not done:
                out.append("scalar form %s never accepted" % kind)
            if not refused:
                out.append("scalar form %s never refused" % kind)
        for kind in ("actnp", "act-i32", "act-u8", "trim-np", "trim-i32", "trim-u8"):
            if not (notes.get(kind + ":clamped") or notes.get(kind + ":noop")):
                out.append("numpy integer (%s) beyond the number of components never clamped" % kind)
        return out

    def rule(self):
        return (
            "breadth-first over histories of n_active_components / trim_components letters from every data letter; "
            "canonical state = (kept, active, observation of the live model); every transition runs the real model, "
            "the (kept, active) prefix model over the SVD spectrum, the static identities and a fresh build"
        )

    def alphabet_sizes(self):
        roots = self.roots()
        return {
            "data_letters": len(roots),
            "vector_backed": len([r for r in roots if r[0] == "vec"]),
            "object_backed": len([r for r in roots if r[0] != "vec"]),
            "n_d_pairs": sorted(set((r[1], r[2]) for r in roots)),
            "variance_fraction_letters": list(F_LETTERS + F_INVALID),
            "data_forms": sorted(set(r[6] if len(r) > 6 else "f64" for r in roots)),
            "data_letters_in_other_forms": len([r for r in roots if len(r) > 6]),
            "weight_forms": list(WEIGHT_FORMS),
            "vector_forms": list(VECTOR_FORMS),
            "scalar_forms": sorted(SCALAR_FORMS),
            "ops_per_state": "4K+%d (K = number of components of the data letter)" % (len(self.ops({"K": 0, "fmap": {}}, 0))),
            "weight_letters_per_state": "active + 3 (unit, mixed, seeded, short)",
            "probe_vectors_per_state": 4,
        }

    def assumptions(self):
        return [
            "data letters have a well separated spectrum: lambda[i+1]/lambda[i] <= %g, lambda[last]/lambda[0] >= %g (guarded, redrawn otherwise)" % (GAP_MAX_RATIO, FLOOR_MIN_RATIO),
            "variance-fraction letters keep a distance of %g to every cumulative variance ratio (exactly 1.0 is a floating-point tie and is not used)" % F_TIE_MARGIN,
            "size boundaries: d = B-1, B, B+1, 2B for the block size B = %d of dot_inplace_right (n = 2, 3; static identities only), d = 1, n = 2, n = d = 2, "
            "one sample more than n_samples, zero-variance data (no component), empty weight vector, max_n_components = K+1; n = 1, n = 0 and d = 0 are "
            "not letters (no sample variance / refused with ValueError)" % block_size(),
            "scale letters on a subset of the data letters: every value x 1e-6, x 1e-9, x 1e6; a common offset of 1e6 leading standard deviations "
            "(centred models only; ordinary tolerances against the float64 reference, x 1e6 only in the comparison with the un-offset payload); variance "
            "fractions %g of a gap away from a cumulative ratio; one long sample axis (n = 2000); all tolerances are relative to the data magnitude, "
            "weights are in units of the leading standard deviation; scale equivariance against the model of the payload at scale 1" % NEAR_TIE,
            "otherwise n <= 11 samples, d <= 10 features; data in the argument forms float64 / int64 / int32 / int16 / uint8 / bool / float32 ndarrays, "
            "Fortran-ordered, non-contiguous and read-only arrays, lists of rows, lists of python float / int lists, tuples of samples, "
            "wherever the unchanged tree accepts the form (probed on /repo)",
            "forms that are NOT letters: read-only data with inplace=True (refused, ValueError), float32 data centred with n <= d "
            "(single-precision noise passes the 1e-10 eigenvalue floor and leaves a spurious component: a precision matter outside the property), "
            "lists / tuples as the vector of project / reconstruct / project_out (refused, TypeError)",
            "numpy integer / floating scalars given to n_active_components / trim_components follow the rule of the python number holding the same value "
            "(np.float32 / np.float16 fractions: the value the scalar holds, kept %g away from every cumulative ratio)" % 1e-5,
            "float32 models are compared with the float64 reference at orthonormality %g, eigenvalues %g relative, vectors %g" % (F32_TOL["orth"], F32_TOL["eig"], F32_TOL["vec"]),
            "quick tier: histories of length 3 from the float64 data letters, of length 2 from the data letters in other argument forms",
            "the eigenvalue of an uncentred model is the (n-1)-normalised second moment about the origin [interp]",
            "a 0-d integer array (not a numpy scalar) larger than the number of components may either be refused (ValueError, nothing changes) or clamped",
            "weight vectors and probe vectors: unit, mixed-sign, seeded generic, shorter than the active count; 4 probe vectors per state",
            "tolerances: orthonormality %g, eigenvalues rel %g, vectors %g x data scale, evolved-vs-fresh exact except sums of eigenvalues (%g rel)" % (TOL_ORTH, TOL_EIG_REL, TOL_VEC, TOL_SCALAR_REL),
        ]


CHECK = C10
