"""C05 - vectorisation round-trips the whole object and never mutates it.

Roots   : one per Vectorizable object letter
            ('shape', class, n_dims, n landmark groups, variant)          variant std / n1 / n6 / fortran
            ('image', kind, shape, channels, dtype, mask kind, n groups, variant)
            ('transform', class, n_dims, payload variant, option)         only where the class is vectorizable
State   : the live object (initially the letter, afterwards the result of from_vector) and its observation.
Ops     : ('asvec',)            as_vector() / n_parameters on the current object                       (query)
          ('fv', kind, ...)     from_vector of a vector of the right length: own / zeros / ones / gen j / gen64 j /
                                quat i (canonical unit quaternions from an axis-angle grid); the RESULT becomes the
                                state, so depth 2 re-checks everything from non-initial states
          ('wrong', L)          from_vector of a vector of a wrong length L                            (query)
          SCALE letters (small subset of the roots): the same payloads at other legal magnitudes - coordinates / pixel
          values / translations / scale factors x 1e-6, 1e-9, 1e6, a common offset of 1e6 (offset / spread ~ 1e6),
          transforms that are nearly but not exactly the identity (deviation 1e-7), and large-SIZE images (>= 1e5
          pixels) whose mask is all true but one pixel / all false but one pixel.  Vector letters are scaled alike.
          ('compose', dir, X)   transforms only, level 0: compose_before/after_inplace with a generic X; no oracle of
                                its own (C03), it only produces objects with a history for the vector letters
Oracle  : reference parameterisations written here in plain numpy / python loops (never calling the menpo
          method under test): see ref_vector / ref_from_vector.  Every clause of the property is one named
          clause of a Failure.
"""
import numpy as np

from mc import letters as L
from mc.core import Check, Failure
from mc.observe import PROBE2, PROBE3, buffers, flip, obs_diff, obs_key, observe, unflip

SHAPES = ["PointCloud", "TriMesh", "ColouredTriMesh", "TexturedTriMesh", "PointUndirectedGraph", "PointDirectedGraph", "PointTree", "LabelledPointUndirectedGraph"]
CONNECTED = set(SHAPES) - {"PointCloud"}  # point-carrying shapes with connectivity (footprint of D24)
IMAGES = ["Image", "MaskedImage", "BooleanImage"]
TRANSFORM_BASES = ["Homogeneous", "Affine", "Similarity", "Rotation", "UniformScale", "NonUniformScale", "Translation"]
ABSTRACT = {"Shape", "PointGraph"}  # Vectorizable subclasses that are never instantiated

# tolerance for transforms (delta-from-identity and quaternion parameterisations do floating point work);
# observed error on the unchanged tree over seeds 0..4 <= 3e-15 relative (h_matrix, probe, target), 6e-16
# (quaternions, compared with atol 1e-9); the smallest planned mutant effect is > 1e-2.  Shapes and images are compared bitwise.
# The tolerance is RELATIVE to the magnitude of the data it is applied to (never an absolute epsilon): an array is
# compared norm-wise, |a - b| <= T_REL * scale with scale = the largest magnitude entering the computation of that array
# (blocks of h_matrix separately; |A||x| + |t| for applied points; 1 + |p| for delta-from-identity parameters, |p| for
# plain copies, 1 for unit quaternions).
T_REL = 1e-11
Q_REL = 1e-9  # unit quaternions (eigen-decomposition in as_vector)


# ------------------------------------------------------------------------------------------------
# reference model (plain numpy / loops over an observation)
# ------------------------------------------------------------------------------------------------
def family(cls):
    if cls in SHAPES:
        return "shape"
    if cls in IMAGES:
        return "image"
    return "transform"


def base_of(cls):
    return cls[len("Alignment"):] if cls.startswith("Alignment") else cls


def ocopy(o):
    if isinstance(o, np.ndarray):
        return o.copy()
    if isinstance(o, dict):
        return type(o)((k, ocopy(v)) for k, v in o.items())
    if isinstance(o, (list, tuple)):
        return [ocopy(v) for v in o]
    return o


def parse_scale(var):
    """variant / option string -> (factor, offset, nearly-identity flag); (1, 0, False) for ordinary letters."""
    if isinstance(var, str):
        if var.startswith("s:"):
            return float(var[2:]), 0.0, False
        if var.startswith("off:"):
            return 1.0, float(var[4:]), False
        if var == "nearid":
            return 1.0, 0.0, True
    return 1.0, 0.0, False


def is_scale_letter(var):
    return parse_scale(var) != (1.0, 0.0, False)


def scale_h(base, h, s, off):
    """the same map expressed in coordinates multiplied by s and shifted by off (x' = s x + off): linear part kept,
    translation s t + off - A off, projective row / s; scale factors (which ARE the input of the scale classes) x s."""
    h = np.array(h, dtype=float, copy=True)
    d = h.shape[0] - 1
    if base in ("UniformScale", "NonUniformScale"):
        for r in range(d):
            h[r, r] = h[r, r] * s
        return h
    if base == "Rotation":
        return h
    a = h[:d, :d].copy()
    h[:d, d] = s * h[:d, d] + off - a.dot(np.full(d, off))
    if base == "Homogeneous":
        h[d, :d] = h[d, :d] / s
    return h


def ident_mask(base, d):
    """1 where a parameter is a delta from the identity (p = h_ii - 1: absolute rounding error eps * |h_ii|)."""
    if base == "Affine":
        return np.array([1.0 if r == c else 0.0 for c in range(d + 1) for r in range(d)])
    if base == "Similarity":
        return np.array([1.0, 0.0, 0.0, 0.0])
    return None


def apply_mag(base, h, x):
    """largest magnitude entering ref_apply(base, h, x)"""
    d = h.shape[0] - 1
    with np.errstate(all="ignore"):
        m = np.abs(x).dot(np.abs(h[:d, :d]).T) + np.abs(h[:d, d])
        if base == "Homogeneous":
            den = np.hstack([x, np.ones((x.shape[0], 1))]).dot(h[d])
            m = m / np.abs(den)[:, None]
        m = m[np.isfinite(m)]
    return float(m.max()) if m.size else 1.0


def arr_close(a, b, scale, rel=None):
    rel = T_REL if rel is None else rel
    a = np.asarray(a, dtype=float)
    b = np.asarray(b, dtype=float)
    if a.shape != b.shape:
        return False
    if not np.isfinite(scale):
        return np.array_equal(a, b, equal_nan=True)
    return bool(np.allclose(a, b, rtol=0, atol=rel * scale, equal_nan=True))


def tdiff(exp, got, mags=None, path=""):
    """obs_diff for transform observations with magnitude-relative tolerances (see T_REL)."""
    mags = mags or {}
    if isinstance(exp, np.ndarray) or isinstance(got, np.ndarray):
        if not (isinstance(exp, np.ndarray) and isinstance(got, np.ndarray)):
            return "%s: %s vs %s" % (path, type(exp).__name__, type(got).__name__)
        if exp.shape != got.shape:
            return "%s: shape %s vs %s" % (path, exp.shape, got.shape)
        if exp.dtype.kind not in "fc":
            return None if np.array_equal(exp, got) else "%s: arrays differ" % path
        with np.errstate(all="ignore"):
            if path.endswith(".h_matrix") and exp.ndim == 2 and exp.shape[0] == exp.shape[1]:
                d = exp.shape[0] - 1
                # linear part, translation, projective row (units 1 / length), homogeneous corner
                blocks = [(slice(0, d), slice(0, d)), (slice(0, d), slice(d, d + 1)), (slice(d, d + 1), slice(0, d)), (slice(d, d + 1), slice(d, d + 1))]
            else:
                blocks = [tuple(slice(None) for _ in exp.shape)]
            for blk in blocks:
                a, b = exp[blk], got[blk]
                fin = np.concatenate([np.abs(a[np.isfinite(a)]).ravel(), np.abs(b[np.isfinite(b)]).ravel(), [0.0]])
                scale = max(float(fin.max()), mags.get(path, 0.0))
                if path.endswith(".h_matrix") and blk is blocks[0]:
                    scale = max(scale, 1.0)  # deltas from the identity
                if path.endswith(".h_matrix") and len(blocks) == 4 and blk is blocks[2]:
                    # the projective row acts as row . x next to the corner entry: its magnitude is |corner| / |x|
                    scale = max(scale, max(1.0, float(np.abs(exp[d, d]))) / mags.get("xmag", 1.0))
                if not arr_close(a, b, scale):
                    err = np.nanmax(np.abs(a - b)) if a.size else 0.0
                    return "%s: arrays differ (max abs %.3g at magnitude %.3g)" % (path, err, scale)
        return None
    if isinstance(exp, dict) and isinstance(got, dict):
        if list(exp.keys()) != list(got.keys()):
            return "%s: keys %s vs %s" % (path, list(exp.keys()), list(got.keys()))
        for k in exp:
            r = tdiff(exp[k], got[k], mags, path + "." + str(k))
            if r:
                return r
        return None
    if isinstance(exp, (list, tuple)) and isinstance(got, (list, tuple)):
        if len(exp) != len(got):
            return "%s: len %d vs %d" % (path, len(exp), len(got))
        for i, (x, y) in enumerate(zip(exp, got)):
            r = tdiff(x, y, mags, path + "[%d]" % i)
            if r:
                return r
        return None
    return obs_diff(exp, got, 0.0, 0.0, path)


def ref_h_to_vec(base, h):
    d = h.shape[0] - 1
    if base == "Homogeneous":
        return np.array([h[i, j] for i in range(d + 1) for j in range(d + 1)])
    if base == "Affine":
        return np.array([h[r, c] - (1.0 if r == c else 0.0) for c in range(d + 1) for r in range(d)])
    if base == "Similarity":
        return np.array([h[0, 0] - 1.0, h[1, 0], h[0, 2], h[1, 2]])
    if base == "Translation":
        return np.array([h[r, d] for r in range(d)])
    if base == "NonUniformScale":
        return np.array([h[r, r] for r in range(d)])
    if base == "UniformScale":
        return np.array([h[0, 0]])
    if base == "Rotation":
        return quat_of_matrix(h[:3, :3])
    raise ValueError(base)


def ref_vec_to_h(base, d, w):
    h = np.eye(d + 1)
    if base == "Homogeneous":
        for i in range(d + 1):
            for j in range(d + 1):
                h[i, j] = w[i * (d + 1) + j]
    elif base == "Affine":
        k = 0
        for c in range(d + 1):
            for r in range(d):
                h[r, c] = h[r, c] + w[k]
                k += 1
    elif base == "Similarity":
        a, b, tx, ty = [float(x) for x in w]
        h = np.array([[1.0 + a, -b, tx], [b, 1.0 + a, ty], [0.0, 0.0, 1.0]])
    elif base == "Translation":
        for r in range(d):
            h[r, d] = w[r]
    elif base == "NonUniformScale":
        for r in range(d):
            h[r, r] = w[r]
    elif base == "UniformScale":
        for r in range(d):
            h[r, r] = w[0]
    elif base == "Rotation":
        h[:3, :3] = matrix_of_quat(w)
    else:
        raise ValueError(base)
    return h


def matrix_of_quat(q):
    w, x, y, z = [float(v) for v in np.asarray(q) / np.sqrt(np.dot(q, q))]
    return np.array(
        [
            [1 - 2 * (y * y + z * z), 2 * (x * y - w * z), 2 * (x * z + w * y)],
            [2 * (x * y + w * z), 1 - 2 * (x * x + z * z), 2 * (y * z - w * x)],
            [2 * (x * z - w * y), 2 * (y * z + w * x), 1 - 2 * (x * x + y * y)],
        ]
    )


def quat_of_matrix(r):
    """Shepperd's method; canonical sign (scalar part >= 0)."""
    t = r[0, 0] + r[1, 1] + r[2, 2]
    cands = [t, r[0, 0], r[1, 1], r[2, 2]]
    k = int(np.argmax(cands))
    if k == 0:
        w = np.sqrt(1 + t) / 2
        q = [w, (r[2, 1] - r[1, 2]) / (4 * w), (r[0, 2] - r[2, 0]) / (4 * w), (r[1, 0] - r[0, 1]) / (4 * w)]
    elif k == 1:
        x = np.sqrt(1 + r[0, 0] - r[1, 1] - r[2, 2]) / 2
        q = [(r[2, 1] - r[1, 2]) / (4 * x), x, (r[0, 1] + r[1, 0]) / (4 * x), (r[0, 2] + r[2, 0]) / (4 * x)]
    elif k == 2:
        y = np.sqrt(1 - r[0, 0] + r[1, 1] - r[2, 2]) / 2
        q = [(r[0, 2] - r[2, 0]) / (4 * y), (r[0, 1] + r[1, 0]) / (4 * y), y, (r[1, 2] + r[2, 1]) / (4 * y)]
    else:
        z = np.sqrt(1 - r[0, 0] - r[1, 1] + r[2, 2]) / 2
        q = [(r[1, 0] - r[0, 1]) / (4 * z), (r[0, 2] + r[2, 0]) / (4 * z), (r[1, 2] + r[2, 1]) / (4 * z), z]
    q = np.array(q, dtype=float)
    return -q if q[0] < 0 else q


def ref_apply(base, h, x):
    d = h.shape[0] - 1
    with np.errstate(all="ignore"):
        if base == "Homogeneous":
            hx = np.hstack([x, np.ones((x.shape[0], 1))]).dot(h.T)
            return hx[:, :d] / hx[:, d:]
        return x.dot(h[:d, :d].T) + h[:d, d]


def ref_vector(ob):
    """the vector the property defines for an object with observation `ob`."""
    cls = ob["class"]
    fam = family(cls)
    if fam == "shape":
        p = ob["points"]
        return np.array([p[i, j] for i in range(p.shape[0]) for j in range(p.shape[1])], dtype=p.dtype)
    if fam == "image":
        px = ob["pixels"]
        out = []
        if px.size > 5000:  # large-size letters: the same definition through flat raster indices
            flat = px.reshape(px.shape[0], -1)
            if cls == "MaskedImage":
                flat = flat[:, np.flatnonzero(ob["mask"][0].ravel())]
            return np.array(flat.ravel(), dtype=px.dtype)
        if cls == "MaskedImage":
            m = ob["mask"][0]
            for c in range(px.shape[0]):  # channel-major ...
                for idx in np.ndindex(*px.shape[1:]):  # ... raster order
                    if m[idx]:
                        out.append(px[(c,) + idx])
        else:
            for c in range(px.shape[0]):
                for idx in np.ndindex(*px.shape[1:]):
                    out.append(px[(c,) + idx])
        return np.array(out, dtype=px.dtype)
    return ref_h_to_vec(base_of(cls), ob["h_matrix"])


def ref_from_vector(ob, w):
    """expected observation of ob.from_vector(w) for a vector of the right length."""
    cls = ob["class"]
    fam = family(cls)
    new = ocopy(ob)
    if fam == "shape":
        n, d = ob["points"].shape
        pts = np.zeros((n, d), dtype=w.dtype)
        for i in range(n):
            for j in range(d):
                pts[i, j] = w[i * d + j]
        new["points"] = pts
        return new
    if fam == "image":
        shp = ob["pixels"].shape
        px = np.zeros(shp, dtype=w.dtype)
        k = 0
        m = ob["mask"][0] if cls == "MaskedImage" else None
        if px.size > 5000:
            cols = np.flatnonzero(m.ravel()) if m is not None else np.arange(int(np.prod(shp[1:])))
            px.reshape(shp[0], -1)[:, cols] = np.asarray(w).reshape(shp[0], len(cols))
            new["pixels"] = px
            return new
        for c in range(shp[0]):
            for idx in np.ndindex(*shp[1:]):
                if m is None or m[idx]:
                    px[(c,) + idx] = w[k]
                    k += 1
        new["pixels"] = px
        return new
    base = base_of(cls)
    d = ob["n_dims"]
    h = ref_vec_to_h(base, d, w)
    new["h_matrix"] = h
    if "source" in ob:
        new["target"] = ref_apply(base, h, ob["source"])
    if "probe" in ob:
        new["probe"] = ref_apply(base, h, PROBE2 if d == 2 else PROBE3)
    return new


# ------------------------------------------------------------------------------------------------
# letters
# ------------------------------------------------------------------------------------------------
_QUATS = {}


def quat_grid(tier):
    """canonical unit quaternions (scalar part >= 0) from an axis-angle grid; [1,0,0,0] first."""
    if tier in _QUATS:
        return _QUATS[tier]
    axes = [(1, 0, 0), (0, -1, 0), (0, 0, 1), (1, 1, 1), (0.2, -0.5, 0.84)]
    axes += [(-1, 0, 0), (0, 1, 0), (0, 0, -1), (1, -1, 0), (-1, 0, 1), (0, 1, 1), (-1, -1, -1), (-0.7, 0.1, 0.3), (0.33, 0.66, -0.67)]
    angles = [1e-3, 7, 30, 89, 90, 91, 120, 150, 173, 179.9, 180]
    out = [np.array([1.0, 0, 0, 0])]
    for a in axes:
        a = np.array(a, dtype=float)
        a = a / np.sqrt((a ** 2).sum())
        for t in angles:
            half = np.deg2rad(t) / 2
            q0 = 0.0 if t == 180 else np.cos(half)
            out.append(np.concatenate([[q0], np.sin(half) * a]))
    _QUATS[tier] = out
    return out


def build_object(root, seed):
    fam = root[0]
    if fam == "shape":
        _, cls, d, k, var = root
        if var == "std":
            return L.shape((cls, d, k), seed)
        if var == "n1":
            from menpo.shape import PointCloud

            return L.add_landmarks(PointCloud(L.generic_points(1, d, seed, "c05-n1")), k, seed)
        if var == "n6":
            return L.add_landmarks(L.bare_shape(cls, d, seed, salt="c05-n6", n=6), k, seed)
        if var == "fortran":
            o = L.shape((cls, d, k), seed)
            o.points = np.asfortranarray(o.points)  # ravel() of this is a copy, not a view
            return o
        if is_scale_letter(var):
            s, off, _ = parse_scale(var)
            o = L.shape((cls, d, k), seed)
            o.points = o.points * s + off  # the coordinates at another magnitude (landmarks are carried as they are)
            return o
        raise ValueError(root)
    if fam == "image":
        _, kind, shp, c, dtype, mkind, k, var = root
        if mkind in ("none", "onefalse"):
            from menpo.image import BooleanImage, MaskedImage

            m = np.zeros(tuple(shp), dtype=bool)
            if mkind == "onefalse":  # nearly, but not exactly, all true
                m[...] = True
                m.flat[(2 * m.size) // 3] = False
            if kind == "BooleanImage":
                im0 = L.image((kind, shp, c, dtype, "-", k), seed)
                im = BooleanImage(m)
            else:
                im0 = L.image((kind, shp, c, dtype, "all", k), seed)
                im = MaskedImage(im0.pixels, mask=m)
            if k:
                im.landmarks = im0.landmarks
        else:
            im = L.image((kind, shp, c, dtype, mkind, k), seed)
        if var == "fortran":
            im.pixels = np.asfortranarray(im.pixels)
        elif is_scale_letter(var):
            s, off, _ = parse_scale(var)
            im.pixels = (im.pixels * s + off).astype(im.pixels.dtype)  # pixel values at another magnitude
        return im
    if fam == "transform":
        import menpo.transform as mt

        _, name, d, var, opt = root[:5]
        t = L.transform((name, d, var), seed)
        if opt == "norot":
            t = mt.AlignmentSimilarity(t.source, t.target, rotation=False)
        elif opt == "mirror" and name == "AlignmentSimilarity":
            t = mt.AlignmentSimilarity(t.source, t.target, allow_mirror=True)
        elif opt == "mirror" and name == "AlignmentRotation":
            t = mt.AlignmentRotation(t.source, t.target, allow_mirror=True)
        elif is_scale_letter(opt):
            from menpo.shape import PointCloud

            s, off, nearid = parse_scale(opt)
            base = base_of(name)
            if name.startswith("Alignment"):
                # the same alignment problem in coordinates x s (+ off); nearly identical source and target for nearid
                src = t.source.points * s + off
                tgt = t.target.points * s + off
                if nearid:
                    tgt = src + 1e-7 * (tgt - src)
                return getattr(mt, name)(PointCloud(src), PointCloud(tgt))
            h = np.array(t.h_matrix, copy=True)
            if nearid:
                if base == "Rotation":
                    ang = 2e-7  # radians
                    h[:3, :3] = matrix_of_quat(np.array([np.cos(ang / 2), 0.0, np.sin(ang / 2) * 0.6, np.sin(ang / 2) * 0.8]))
                else:
                    h = np.eye(d + 1) + 1e-7 * (h - np.eye(d + 1))
            else:
                h = scale_h(base, h, s, off)
            if base == "Homogeneous":
                return mt.Homogeneous(h)
            if base == "Affine":
                return mt.Affine(h)
            if base == "Similarity":
                return mt.Similarity(h)
            if base == "Rotation":
                return mt.Rotation(h[:d, :d])
            if base == "Translation":
                return mt.Translation(h[:d, d])
            if base == "UniformScale":
                return mt.UniformScale(h[0, 0], d)
            if base == "NonUniformScale":
                return mt.NonUniformScale(np.array([h[r, r] for r in range(d)]))
            raise ValueError(root)
        return t
    raise ValueError(root)


VECTORIZABLE_TRANSFORMS = {
    2: ["Homogeneous", "Affine", "Similarity", "UniformScale", "NonUniformScale", "Translation", "AlignmentAffine", "AlignmentSimilarity", "AlignmentUniformScale", "AlignmentTranslation"],
    3: ["Homogeneous", "Affine", "Rotation", "UniformScale", "NonUniformScale", "Translation", "AlignmentAffine", "AlignmentRotation", "AlignmentUniformScale", "AlignmentTranslation"],
}
SCALE_VARS = ("s:1e-6", "s:1e-9", "s:1e6", "off:1e6")
LARGE = (320, 320)
_S2 = ("s:1e-6", "s:1e6")
SCALE_TRANSFORMS = [
    ("Affine", 2, _S2 + ("s:1e-9", "off:1e6", "nearid")),
    ("Affine", 3, ("nearid",)),
    ("Similarity", 2, _S2 + ("off:1e6", "nearid")),
    ("Translation", 3, _S2 + ("s:1e-9", "off:1e6", "nearid")),
    ("UniformScale", 2, _S2 + ("s:1e-9", "nearid")),
    ("NonUniformScale", 3, _S2 + ("nearid",)),
    ("Homogeneous", 2, _S2 + ("nearid",)),
    ("Rotation", 3, ("nearid",)),
    ("AlignmentAffine", 2, _S2 + ("nearid",)),
    ("AlignmentSimilarity", 2, _S2 + ("s:1e-9", "off:1e6", "nearid")),
    ("AlignmentTranslation", 3, _S2 + ("s:1e-9", "off:1e6", "nearid")),
    ("AlignmentUniformScale", 3, _S2 + ("off:1e6", "nearid")),
    ("AlignmentRotation", 3, _S2 + ("nearid",)),
]


def root_var(root):
    """the variant / option field of a root (where a scale letter is declared)"""
    return root[7] if root[0] == "image" else root[4]


OTHER_DIM_LENGTH = {"Homogeneous": {2: 16, 3: 9}, "Affine": {2: 12, 3: 6}, "Similarity": {2: 7}, "Translation": {2: 3, 3: 2}, "NonUniformScale": {2: 3, 3: 2}, "Rotation": {3: 1}}


class C05(Check):
    id = "C05"
    title = "vectorisation round-trips the whole object and never mutates it"
    queries_must_not_mutate = True

    def __init__(self, tier, seed):
        Check.__init__(self, tier, seed)
        self._d24_filed = {}

    def depth(self):
        # quick: level 0 = every vector letter on every object letter + the in-place composition letters; level 1 =
        # the vector letters again, but only from the objects an in-place composition has changed.
        # thorough: every letter again from every from_vector result and every composed object (levels 1, 2); the
        # result of from_vector depends only on the vector and on state from_vector never changes, so level 2 mostly
        # merges into level 1 (what is new there comes from the sharded quaternion grid and the composed objects)
        return 2 if self.tier == "quick" else 3

    # ------------------------------------------------------------------ roots
    def roots(self):
        thorough = self.tier != "quick"
        out = []
        for cls, d, k in L.shape_specs():
            out.append(("shape", cls, d, k, "std"))
        for d in (2, 3):
            out.append(("shape", "PointCloud", d, 1, "n1"))
            out.append(("shape", "PointCloud", d, 1, "fortran"))
            out.append(("shape", "TriMesh", d, 1, "fortran"))
        if thorough:
            for cls in ("PointCloud", "TriMesh", "ColouredTriMesh", "TexturedTriMesh", "PointUndirectedGraph", "PointDirectedGraph"):
                for d in (2, 3):
                    out.append(("shape", cls, d, 1, "n6"))
            for cls in ("ColouredTriMesh", "TexturedTriMesh", "PointTree", "LabelledPointUndirectedGraph"):
                out.append(("shape", cls, 2, 2, "fortran"))
        shapes = [(3, 4), (2, 3, 2)]
        if thorough:
            shapes += [(1, 1), (4, 1), (1, 5), (2, 2, 2)]
        for shp in shapes:
            for c in (1, 2, 3):
                for dt in ("float64", "float32", "uint8"):
                    out.append(("image", "Image", shp, c, dt, "-", 2, "std"))
                    for mk in ("all", "sparse", "single"):
                        if mk == "sparse" and int(np.prod(shp)) < 2:
                            continue  # a sparse mask needs a true and a false pixel
                        out.append(("image", "MaskedImage", shp, c, dt, mk, 1, "std"))
                    if thorough:
                        out.append(("image", "MaskedImage", shp, c, dt, "none", 1, "std"))
            out.append(("image", "BooleanImage", shp, 1, "bool", "-", 1, "std"))
        # no landmarks at all (has_landmarks False branch of the landmark transfer), two groups on the subclasses
        for kind, mk, dt in (("Image", "-", "float64"), ("MaskedImage", "sparse", "float64"), ("MaskedImage", "all", "uint8"), ("BooleanImage", "-", "bool")):
            out.append(("image", kind, (3, 4), 1 if kind == "BooleanImage" else 2, dt, mk, 0, "std"))
            if kind != "Image":
                out.append(("image", kind, (3, 4), 1 if kind == "BooleanImage" else 2, dt, mk, 2, "std"))
        # pixel buffer that is not C-contiguous (ravel() copies)
        out.append(("image", "Image", (3, 4), 3, "float64", "-", 1, "fortran"))
        out.append(("image", "MaskedImage", (3, 4), 3, "float64", "all", 1, "fortran"))
        out.append(("image", "MaskedImage", (3, 4), 3, "float64", "sparse", 1, "fortran"))
        out.append(("image", "MaskedImage", (2, 3, 2), 2, "float32", "sparse", 1, "fortran"))
        # SCALE letters: the same payloads at other legal magnitudes, on a small subset of the letters
        for var in SCALE_VARS:
            out.append(("shape", "PointCloud", 2, 1, var))
            out.append(("shape", "TriMesh", 3, 1, var))
            out.append(("shape", "LabelledPointUndirectedGraph", 2, 0, var))
            out.append(("image", "Image", (3, 4), 2, "float64", "-", 1, var))
            out.append(("image", "MaskedImage", (3, 4), 3, "float64", "sparse", 1, var))
        for var in ("s:1e-6", "s:1e6"):
            out.append(("image", "MaskedImage", (2, 3, 2), 2, "float32", "sparse", 1, var))
        # large SIZE: >= 1e5 pixels, mask all true but one pixel / all false but one pixel
        out.append(("image", "MaskedImage", LARGE, 1, "float64", "onefalse", 1, "std"))
        out.append(("image", "MaskedImage", LARGE, 2, "float32", "onefalse", 0, "std"))
        out.append(("image", "MaskedImage", LARGE, 1, "float64", "single", 1, "std"))
        out.append(("image", "BooleanImage", LARGE, 1, "bool", "onefalse", 1, "std"))
        variants = (0, 1, 2) if not thorough else (0, 1, 2, 3)
        heavy = []
        ns = self._rot_shards()
        for name, d, opts in SCALE_TRANSFORMS:
            for opt in opts:
                (heavy if base_of(name) == "Rotation" else out).append(("transform", name, d, 0, opt, 0, 1))
        for d in (2, 3):
            for name in VECTORIZABLE_TRANSFORMS[d]:
                for var in variants:
                    if base_of(name) == "Rotation":
                        heavy += [("transform", name, d, var, "-", s, ns) for s in range(ns)]
                    else:
                        out.append(("transform", name, d, var, "-", 0, 1))
        out.append(("transform", "AlignmentSimilarity", 2, 0, "norot", 0, 1))
        out.append(("transform", "AlignmentSimilarity", 2, 0, "mirror", 0, 1))
        heavy += [("transform", "AlignmentRotation", 3, 0, "mirror", s, ns) for s in range(ns)]
        # the rotation letters carry the quaternion grid: they are sharded and spread over the list so that
        # the pool's chunks of consecutive roots do not serialise them
        step = max(1, len(out) // len(heavy))
        merged = []
        for i, r in enumerate(out):
            if i % step == 0 and heavy:
                merged.append(heavy.pop(0))
            merged.append(r)
        return merged + heavy

    def _rot_shards(self):
        return 1 if self.tier == "quick" else 4

    # ------------------------------------------------------------------ state
    def build(self, root):
        o = build_object(root, self.seed)
        return {"root": root, "obj": o, "obs": observe(o), "derived": False, "composed": False}

    def canon(self, st):
        try:
            ob = observe(st["obj"])
        except Exception as e:  # noqa - an object that cannot be observed is its own state
            return ("unobservable", type(st["obj"]).__name__, type(e).__name__)
        # a letter and a from_vector result with the same observation are kept apart: their buffers differ in
        # ownership / writability (the aliasing pattern is part of the state), so `own` is re-explored at depth 2
        sc, _, nearid = parse_scale(root_var(st["root"]))
        decimals = 12 if nearid else 9 - int(round(np.log10(sc)))  # the rounding of the key follows the magnitude
        return (st["derived"], st["composed"], obs_key(ob, decimals))

    def check_root(self, st, root):
        fails = []
        o = st["obj"]
        cls = type(o).__name__
        self.note("class:%s" % cls)
        var = root_var(root)
        if is_scale_letter(var):
            self.note("scale:%s:%s" % (var, family(cls)))
        if root[0] == "image" and tuple(root[2]) == LARGE:
            self.note("size:large-%s" % root[5])
        ro = [p for p, a in buffers(o) if not a.flags.writeable]
        if ro:
            fails.append(Failure(cls, "letter-not-writeable", "harness letter has read-only buffers %r" % ro))
        return fails

    # ------------------------------------------------------------------ alphabet
    def _tol(self, cls):
        """(atol, rtol) marker: (0, 0) = bitwise (shapes, images); anything else = magnitude-relative (transforms)"""
        return (0.0, 0.0) if family(cls) != "transform" else (T_REL, T_REL)

    @staticmethod
    def _odiff(exp, got, cls, skip=()):
        """complete observations: bitwise for shapes / images, magnitude-relative (tdiff) for transforms"""
        if family(cls) != "transform":
            return obs_diff(exp, got, 0.0, 0.0, skip=skip)
        if skip:
            exp = type(exp)((k, v) for k, v in exp.items() if "." + k not in skip)
            got = type(got)((k, v) for k, v in got.items() if "." + k not in skip)
        base = base_of(cls)
        mags = {}
        h = exp.get("h_matrix")
        if isinstance(h, np.ndarray):
            x = exp["source"] if "source" in exp else (PROBE2 if h.shape[0] == 3 else PROBE3)
            mags["xmag"] = float(np.abs(x).max())
            if "source" in exp:
                mags[".target"] = apply_mag(base, h, exp["source"])
            if isinstance(exp.get("probe"), np.ndarray):
                mags[".probe"] = apply_mag(base, h, PROBE2 if h.shape[0] == 3 else PROBE3)
        return tdiff(exp, got, mags)

    def _n(self, st):
        return int(ref_vector(st["obs"]).shape[0])

    def _n_angles(self):
        return 11

    def n_gen(self):
        return 3 if self.tier == "quick" else 4

    def ops(self, st, level):
        ob = st["obs"]
        cls = ob["class"]
        fam = family(cls)
        base = base_of(cls)
        if level >= 1 and self.tier == "quick" and not (st["composed"] and not st["derived"]):
            return []
        n = self._n(st)
        out = [("asvec",), ("fv", "own")]
        if base == "Rotation":
            nq = len(quat_grid(self.tier))
            # from a from_vector result (level >= 1) the reduced grid: identity, first axis, one generic axis
            shard, n_shards = st["root"][5], st["root"][6]
            if level == 0:
                idx = [i for i in range(nq) if i % n_shards == shard]
            else:
                idx = [i for i in range(nq) if i <= self._n_angles() or i > nq - 1 - self._n_angles()]
            out += [("fv", "quat", i) for i in idx]
        else:
            out.append(("fv", "zeros"))
            if cls == "BooleanImage":
                out.append(("fv", "ones"))
            out += [("fv", "gen", j) for j in range(self.n_gen())]
            if fam == "image" and cls != "BooleanImage" and str(ob["pixels"].dtype) != "float64":
                out.append(("fv", "gen64", 0))
        # wrong lengths
        lens = [0, 1, n - 1, n + 1, 2 * n]
        if fam == "shape":
            d = ob["points"].shape[1]
            lens += [n - d, n + d, 3 * n, d]
        elif fam == "image":
            c = ob["pixels"].shape[0]
            lens += [c, 2 * c, n - c, n + c, int(np.prod(ob["pixels"].shape))]
        else:
            d = ob["n_dims"]
            lens += [d, d + 1, n // 2]
            other = OTHER_DIM_LENGTH.get(base, {}).get(d)
            if other is not None:
                lens.append(other)
        seen = set()
        for x in lens:
            if x >= 0 and x != n and x not in seen:
                seen.add(x)
                out.append(("wrong", int(x)))
        # mutator letters: a transform that has swallowed another one in place must still round-trip
        if fam == "transform" and level == 0 and not is_scale_letter(root_var(st["root"])):
            for direction in ("before", "after"):
                for partner in L.HOMOG_PLAIN:
                    out.append(("compose", direction, partner))
        return out

    def is_query(self, op):
        return op[0] in ("asvec", "wrong")

    # ------------------------------------------------------------------ payload
    def _payload(self, ob, n, op_salt, var=None):
        """seeded vector of length n in the natural dtype of the object (structure never depends on the seed); for a
        scale letter the vector is expressed at the magnitude of the letter."""
        w = self._payload_unit(ob, n, op_salt)
        if op_salt[0] == "wrong" or not is_scale_letter(var):
            return w
        sc, off, nearid = parse_scale(var)
        cls = ob["class"]
        fam = family(cls)
        if fam in ("shape", "image"):
            return (w * sc + off).astype(w.dtype) if w.dtype.kind == "f" else w
        base = base_of(cls)
        d = ob["n_dims"]
        if nearid:
            if base in ("UniformScale", "NonUniformScale"):
                return 1.0 + 1e-7 * (w - 1.0)
            if base == "Homogeneous":
                return (np.eye(d + 1) + 1e-7 * (w.reshape(d + 1, d + 1) - np.eye(d + 1))).ravel()
            return 1e-7 * w
        if base in ("UniformScale", "NonUniformScale"):
            return w * sc
        return ref_h_to_vec(base, scale_h(base, ref_vec_to_h(base, d, w), sc, off))

    def _payload_unit(self, ob, n, op_salt):
        cls = ob["class"]
        fam = family(cls)
        r = L.rs(self.seed, "c05-vec", cls, n, op_salt)
        if fam == "shape":
            return 0.5 + 5.0 * r.rand(n)
        if fam == "image":
            dt = ob["pixels"].dtype
            if op_salt[0] == "gen64":
                return r.rand(n)
            if dt == np.bool_:
                w = r.rand(n) > 0.5
                if n > 1:
                    w[0], w[-1] = False, True
                return w
            if dt == np.uint8:
                return r.randint(0, 256, size=n).astype(np.uint8)
            return r.rand(n).astype(dt)
        base = base_of(cls)
        d = ob["n_dims"]
        if op_salt[0] != "gen":  # wrong lengths: nonzero generic numbers
            return 0.3 + r.rand(n)
        if base == "Homogeneous":
            probe = PROBE2 if d == 2 else PROBE3
            for _ in range(1000):  # general-position guard: probes stay away from the horizon
                h = r.uniform(-1.5, 1.5, size=(d + 1, d + 1))
                h[d, :d] = 0.04 * r.uniform(-1, 1, size=d)
                h[d, d] = 0.8 + 0.4 * r.rand()
                den = np.hstack([probe, np.ones((probe.shape[0], 1))]).dot(h[d])
                if np.abs(den).min() > 0.3:
                    return h.ravel()
            raise RuntimeError("guard")
        if base in ("UniformScale", "NonUniformScale"):
            w = 0.4 + 1.6 * r.rand(n)
            if op_salt[1] % 2 == 1:
                w[0] = -w[0]  # a negative scale on odd letters
            return w
        return r.uniform(-1.5, 1.5, size=n)

    def _vector(self, st, op):
        ob = st["obs"]
        n = self._n(st)
        kind = op[1]
        if kind == "own":
            return st["obj"].as_vector()
        dt = ob["pixels"].dtype if family(ob["class"]) == "image" else np.dtype(float)
        if kind == "zeros":
            return np.zeros(n, dtype=dt)
        if kind == "ones":
            return np.ones(n, dtype=dt)
        if kind == "quat":
            return quat_grid(self.tier)[op[2]].copy()
        return self._payload(ob, n, (kind, op[2]), root_var(st["root"]))

    # ------------------------------------------------------------------ steps
    def apply(self, st, op, verify=True):
        kind = op[0]
        if kind == "asvec":
            return self._asvec(st, verify)
        if kind == "fv":
            return self._fv(st, op, verify)
        if kind == "wrong":
            return self._wrong(st, op, verify)
        if kind == "compose":
            return self._compose(st, op, verify)
        raise ValueError(op)

    def _compose(self, st, op, verify):
        """compose_before_inplace / compose_after_inplace with a generic transform of another (or the same) class.
        What the composition must compute is C03's business; here it only produces the next object, on which
        every vector clause is then checked (an object that accepted a partner must still round-trip)."""
        o = st["obj"]
        partner = L.transform((op[2], st["obs"]["n_dims"], 7), self.seed)
        # the object has been vectorised before it is changed (anything memoised by as_vector / n_parameters / str
        # must not survive the change) - also when this step is replayed without its oracle
        try:
            o.as_vector()
            o.n_parameters
            str(o)
        except Exception:  # noqa - classes that cannot be vectorised in this dimension
            pass
        try:
            if op[1] == "before":
                o.compose_before_inplace(partner)
            else:
                o.compose_after_inplace(partner)
        except Exception as e:  # noqa - refusing a partner is legitimate (ValueError); nothing to check here
            if verify:
                self.note("compose:refused:%s" % type(e).__name__)
            return []
        st["obs"] = observe(o)
        st["composed"] = True
        if verify:
            self.note("compose:accepted")
            self.note("compose:accepted:%s<-%s" % (base_of(type(o).__name__), op[2]))
        return []

    def _asvec(self, st, verify):
        if not verify:
            return []
        o = st["obj"]
        cls = type(o).__name__
        where = "%s.as_vector" % cls
        fails = []
        ob0 = observe(o)
        drift = obs_diff(st["obs"], ob0)
        if drift:
            fails.append(Failure(where, "state-drift", "object changed since the last step: %s" % drift))
        before = [(p, a, bool(a.flags.writeable)) for p, a in buffers(o)]
        v = o.as_vector()
        n_par = o.n_parameters
        if not isinstance(v, np.ndarray):
            return fails + [Failure(where, "vector-type", "as_vector() returned %s" % type(v).__name__)]
        if v.ndim != 1:
            return fails + [Failure(where, "vector-not-1d", "as_vector() has shape %r (n_parameters=%r)" % (v.shape, n_par))]
        if not isinstance(n_par, (int, np.integer)) or isinstance(n_par, bool):
            fails.append(Failure(where, "n_parameters-type", "n_parameters is %r" % (n_par,)))
        elif len(v) != n_par:
            fails.append(Failure(where, "vector-length", "len(as_vector())=%d, n_parameters=%d" % (len(v), n_par)))
        if v.flags.writeable:
            fails.append(Failure(where, "vector-writeable", "as_vector() returned a writeable array"))
        frozen = [p for p, a, wr in before if wr and not a.flags.writeable]
        if frozen:
            fails.append(Failure(where, "object-left-readonly", "buffers of the object no longer writeable after as_vector(): %r" % frozen))
        after = observe(o)
        diff = obs_diff(ob0, after)
        if diff:
            fails.append(Failure(where, "receiver-changed", "as_vector() changed the object: %s" % diff))
        ref = ref_vector(ob0)
        atol, rtol = self._tol(cls)
        dv = self._vec_diff(v, ref, cls, atol, rtol)
        if dv:
            fails.append(Failure(where, "vector-content", "as_vector() differs from the reference parameterisation: %s" % dv))
        eq = self._equivariance(st, v, cls)
        if eq:
            fails.append(Failure(where, "scale-equivariance", eq))
        v2 = o.as_vector()
        if obs_diff(np.asarray(v2), np.asarray(v)) is not None:
            fails.append(Failure(where, "vector-not-repeatable", "second as_vector() differs from the first"))
        frozen = [p for p, a, wr in before if wr and not a.flags.writeable]
        if frozen and not fails:
            fails.append(Failure(where, "object-left-readonly", "after a second as_vector(): %r" % frozen))
        self.note("asvec:len0" if len(v) == 0 else "asvec:ok")
        if cls == "MaskedImage":
            m = ob0["mask"]
            self.note("masked:%s" % ("all" if m.all() else "none" if not m.any() else "single" if m.sum() == 1 else "sparse"))
        return fails

    def _equivariance(self, st, v, cls):
        """as_vector of the letter at magnitude s (+ offset) == the vector of the unit-scale twin, scaled alike.
        Alignment letters are exempt: their matrix comes out of a fit at another scale (C07), not out of this map."""
        root = st["root"]
        var = root_var(root)
        sc, off, nearid = parse_scale(var)
        if not is_scale_letter(var) or nearid or st["derived"] or st["composed"] or cls.startswith("Alignment"):
            return None
        twin_root = tuple("std" if (i == 7 and root[0] == "image") or (i == 4 and root[0] == "shape") else "-" if (i == 4 and root[0] == "transform") else x for i, x in enumerate(root))
        vt = np.array(build_object(twin_root, self.seed).as_vector(), copy=True)
        if family(cls) != "transform":
            want = (vt * sc + off).astype(vt.dtype)
        elif base_of(cls) in ("UniformScale", "NonUniformScale"):
            want = vt * sc
        else:
            d = st["obs"]["n_dims"]
            want = ref_h_to_vec(base_of(cls), scale_h(base_of(cls), ref_vec_to_h(base_of(cls), d, vt), sc, off))
        atol, rtol = self._tol(cls)
        dv = self._vec_diff(v, want, cls, atol, rtol)
        self.note("equivariance:%s" % family(cls))
        return ("as_vector of the scaled letter is not the scaled vector of the unit-scale letter: %s" % dv) if dv else None

    @staticmethod
    def _vec_diff(v, ref, cls, atol, rtol):
        v = np.asarray(v)
        if v.shape != ref.shape:
            return "shape %r vs %r" % (v.shape, ref.shape)
        if base_of(cls) == "Rotation" and abs(ref[0]) < 1e-7:
            # half turn: the canonical sign is not defined, q and -q are the same rotation
            if np.allclose(v, ref, atol=1e-7, rtol=0) or np.allclose(v, -ref, atol=1e-7, rtol=0):
                return None
            return "quaternion %r vs +-%r" % (v.tolist(), ref.tolist())
        if atol == 0 and rtol == 0:
            if v.dtype != ref.dtype:
                return "dtype %s vs %s" % (v.dtype, ref.dtype)
            return None if np.array_equal(v, ref) else "values differ: %r vs %r" % (v.tolist()[:8], ref.tolist()[:8])
        # magnitude-relative, element by element: |p| for copied entries, 1 + |p| for deltas from the identity, 1 for
        # unit quaternions
        if base_of(cls) == "Rotation":
            tol = np.full(ref.shape, Q_REL)
        else:
            ident = ident_mask(base_of(cls), {6: 2, 12: 3, 4: 2}.get(len(ref), 2))
            tol = T_REL * (np.abs(ref) + (ident if ident is not None and ident.shape == ref.shape else 0.0))
        with np.errstate(invalid="ignore"):
            bad = ~((np.abs(v - ref) <= tol) | ((v != v) & (ref != ref)))
        if not bad.any():
            return None
        return "values differ (max abs %.3g): %r vs %r" % (np.nanmax(np.abs(v - ref)), v.tolist()[:8], ref.tolist()[:8])

    def _fv(self, st, op, verify):
        o = st["obj"]
        cls = type(o).__name__
        kind = op[1]
        w = self._vector(st, op)
        if not verify:
            r = o.from_vector(w)
            st["obj"] = r
            st["obs"] = observe(r)
            st["derived"] = True
            return []
        where = "%s.from_vector:%s" % (cls, kind)
        fails = []
        fam = family(cls)
        atol, rtol = self._tol(cls)
        ob0 = observe(o)
        drift = obs_diff(st["obs"], ob0)
        if drift:
            fails.append(Failure(where, "state-drift", "object changed since the last step: %s" % drift))
        w_ref = np.array(w, copy=True)
        if kind == "own" and (w_ref.ndim != 1 or len(w_ref) != self._n(st)):
            return fails + [Failure(where, "vector-length", "as_vector() has shape %r, the reference vector has %d numbers" % (w_ref.shape, self._n(st)))]
        try:
            r = o.from_vector(w)
        except Exception as e:  # noqa - a vector of the right length must be accepted
            self.note("fv:%s:raised" % kind)
            return fails + [Failure(where, "right-length-refused", "from_vector of %d numbers (n_parameters) raised %s: %s" % (len(w_ref), type(e).__name__, e))]
        if r is o:
            fails.append(Failure(where, "result-is-receiver", "from_vector returned its receiver"))
        if type(r) is not type(o):
            fails.append(Failure(where, "result-class", "from_vector of a %s returned a %s" % (cls, type(r).__name__)))
        after = observe(o)
        diff = obs_diff(ob0, after)
        if diff:
            fails.append(Failure(where, "receiver-changed", "from_vector changed the object it was called on: %s" % diff))
        try:
            obr = observe(r)
        except Exception as e:  # noqa
            return fails + [Failure(where, "result-ill-formed", "the result cannot be observed: %s: %s" % (type(e).__name__, e))]
        exp = ref_from_vector(ob0, w_ref)
        diff = self._odiff(exp, obr, cls)
        if diff:
            clause = "roundtrip-state" if kind == "own" else "rebuilt-state"
            fails.append(Failure(where, clause, "expected (reference) vs observed result: %s" % diff))
        elif kind == "own":
            # the property's own wording, without the reference model: everything but the documented exceptions
            skip = ()
            if "source" in ob0:
                skip = (".target",)
            if cls == "MaskedImage":
                skip = (".pixels",)
                m = ob0["mask"][0]
                if not (np.array_equal(obr["pixels"][:, m], ob0["pixels"][:, m]) and not obr["pixels"][:, ~m].any()):
                    fails.append(Failure(where, "roundtrip-state", "masked pixels not reproduced / not zero outside the mask"))
            diff = self._odiff(ob0, obr, cls, skip=skip)
            if diff:
                fails.append(Failure(where, "roundtrip-state", "from_vector(as_vector()) differs from the object: %s" % diff))
        # the vector comes back
        try:
            v2 = r.as_vector()
            n2 = r.n_parameters
        except Exception as e:  # noqa
            return fails + [Failure(where, "result-ill-formed", "as_vector()/n_parameters of the result raised %s: %s" % (type(e).__name__, e))]
        if not isinstance(v2, np.ndarray) or v2.ndim != 1:
            fails.append(Failure(where, "vector-not-1d", "as_vector() of the result has shape %r" % (getattr(v2, "shape", None),)))
        else:
            if len(v2) != n2:
                fails.append(Failure(where, "vector-length", "len(as_vector())=%d, n_parameters=%r on the result" % (len(v2), n2)))
            if v2.flags.writeable:
                fails.append(Failure(where, "vector-writeable", "as_vector() of the result is writeable"))
            dv = self._vec_diff(v2, w_ref, cls, atol, rtol)
            if dv:
                fails.append(Failure(where, "vector-roundtrip", "from_vector(v).as_vector() != v: %s" % dv))
        # alignment transforms: target == aligned source (reference application of the result's own matrix)
        if "source" in obr:
            base = base_of(cls)
            want = ref_apply(base, obr["h_matrix"], obr["source"])
            if not arr_close(want, obr["target"], apply_mag(base, obr["h_matrix"], obr["source"])):
                fails.append(Failure(where, "target-sync", "target %r is not the aligned source %r" % (obr["target"].tolist()[:2], want.tolist()[:2])))
            if obs_diff(ob0["source"], obr["source"]):
                fails.append(Failure(where, "source-changed", "source moved"))
            moved = not arr_close(ob0["target"], obr["target"], float(np.abs(ob0["target"]).max()), 1e-9)
            self.note("alignment:%s" % ("target-moved" if moved else "target-kept"))
        # independence: editing the result must not edit the receiver (alignment sources are shared by design)
        if not fails:
            shared = self._aliasing(o, r, ob0)
            if shared:
                fails.append(Failure(where, "result-aliases-receiver", "writing into %r of the result changes the receiver (%s)" % (shared[0], shared[1])))
        self.note("fv:%s:%s" % (kind, fam))
        if st["derived"]:
            self.note("level2:fv")
        if st["composed"]:
            self.note("fv:%s-after-compose" % kind)
        if base_of(cls) == "Rotation" and kind == "quat":
            q0 = w_ref[0]
            self.note("rotation:%s" % ("identity" if q0 == 1 else "half-turn" if q0 == 0 else "generic"))
        if fam == "image" and cls != "BooleanImage":
            self.note("image-dtype:%s" % obr["pixels"].dtype)
        if not fails:
            st["obj"] = r
            st["obs"] = obr
            st["derived"] = True
        return fails

    def _aliasing(self, o, r, ob0):
        for path, arr in buffers(r):
            if path.startswith("._source"):
                continue  # documented: an alignment copy shares its (immutable) source
            tok = flip(arr)
            if tok is None:
                continue
            try:
                try:
                    now = observe(o)
                    diff = obs_diff(ob0, now)
                except Exception as e:  # noqa
                    diff = "receiver no longer observable: %s" % type(e).__name__
            finally:
                unflip(arr, tok)
            if diff:
                return (path, diff)
        return None

    # ------------------------------------------------------------------ wrong lengths
    def _battery(self, r):
        """own queries of a returned object; list of (query name, exception)"""
        from menpo.image import BooleanImage, Image, MaskedImage
        from menpo.shape import LabelledPointUndirectedGraph, PointCloud, PointDirectedGraph, TexturedTriMesh, TriMesh
        from menpo.shape.graph import Graph
        from menpo.transform.base.alignment import Alignment

        qs = [("as_vector", lambda: r.as_vector()), ("n_parameters", lambda: r.n_parameters), ("str", lambda: str(r))]
        if isinstance(r, PointCloud):
            qs.append(("n_points", lambda: r.n_points))
            if r.points.shape[0] > 0:  # undefined for any empty point cloud, however it was built
                qs += [("bounds", lambda: r.bounds()), ("centre", lambda: r.centre())]
            if isinstance(r, TriMesh):
                qs += [("n_tris", lambda: r.n_tris), ("tri_areas", lambda: r.tri_areas())]
            if isinstance(r, TexturedTriMesh):
                qs.append(("tcoords_pixel_scaled", lambda: r.tcoords_pixel_scaled()))
            if isinstance(r, Graph):
                qs += [("n_edges", lambda: r.n_edges), ("edges", lambda: r.edges), ("adjacency_list", lambda: r.get_adjacency_list()), ("isolated_vertices", lambda: r.isolated_vertices())]
            if isinstance(r, PointDirectedGraph):
                qs.append(("relative_locations", lambda: r.relative_locations()))
            if isinstance(r, LabelledPointUndirectedGraph):
                qs.append(("get_label", lambda: [r.get_label(l) for l in r.labels]))
            if r.has_landmarks:
                qs.append(("landmarks", lambda: [r.landmarks[g].n_points for g in r.landmarks]))
        elif isinstance(r, Image):
            qs += [("n_pixels", lambda: r.n_pixels), ("n_channels", lambda: r.n_channels), ("centre", lambda: r.centre())]
            if isinstance(r, MaskedImage):
                qs += [("n_true_pixels", lambda: r.n_true_pixels()), ("masked_pixels", lambda: r.masked_pixels()), ("as_unmasked", lambda: r.as_unmasked())]
            if isinstance(r, BooleanImage):
                qs += [("n_true", lambda: r.n_true()), ("true_indices", lambda: r.true_indices())]
        else:
            def applies():
                d = r.n_dims
                y = r.apply((PROBE2 if d == 2 else PROBE3).copy())
                if np.asarray(y).shape != (5, d):
                    raise ValueError("apply returned shape %r" % (np.asarray(y).shape,))

            qs += [("n_dims", lambda: r.n_dims), ("apply", applies)]
            if isinstance(r, Alignment):
                qs += [("aligned_source", lambda: r.aligned_source()), ("alignment_error", lambda: r.alignment_error())]
        qs.append(("observe", lambda: observe(r)))
        bad = []
        for name, q in qs:
            np.random.seed(0)  # Rotation.__str__ draws from the global generator
            try:
                q()
            except Exception as e:  # noqa - this is the point of the battery
                bad.append((name, type(e).__name__))
        if not bad:
            v = r.as_vector()
            if not isinstance(v, np.ndarray) or v.ndim != 1 or len(v) != r.n_parameters:
                bad.append(("len(as_vector())==n_parameters", "shape %r vs %r" % (getattr(v, "shape", None), r.n_parameters)))
        return bad

    def _wrong(self, st, op, verify):
        if not verify:
            return []
        o = st["obj"]
        cls = type(o).__name__
        n = self._n(st)
        length = op[1]
        where = "%s.from_vector:wrong-length" % cls
        fails = []
        ob0 = observe(o)
        drift = obs_diff(st["obs"], ob0)
        if drift:
            fails.append(Failure(where, "state-drift", "object changed since the last step: %s" % drift))
        w = self._payload(ob0, length, ("wrong", length))
        tag = self._length_tag(ob0, n, length)
        raised = None
        r = None
        try:
            r = o.from_vector(w)
        except Exception as e:  # noqa - refusing is one of the two permitted outcomes
            raised = e
        after = observe(o)
        diff = obs_diff(ob0, after)
        if diff:
            fails.append(Failure(where, "receiver-changed", "from_vector(%d numbers, n_parameters=%d) changed the object it was called on: %s" % (length, n, diff)))
        if raised is not None:
            self.note("wrong:raised:%s" % type(raised).__name__)
            self.note("wrong-%s:raised" % tag)
            return fails
        if type(r) is not type(o):
            fails.append(Failure(where, "result-class", "from_vector of a %s returned a %s" % (cls, type(r).__name__)))
        bad = self._battery(r)
        if "source" in ob0 and not bad:
            obr = observe(r)
            want = ref_apply(base_of(cls), obr["h_matrix"], obr["source"])
            if not arr_close(want, obr["target"], apply_mag(base_of(cls), obr["h_matrix"], obr["source"])):
                fails.append(Failure(where, "target-sync", "accepted %d numbers (n_parameters=%d); target is not the aligned source" % (length, n)))
        if bad:
            detail = "from_vector accepted %d numbers (n_parameters=%d) and returned a %s whose own queries fail: %r" % (length, n, type(r).__name__, bad)
            d24 = cls in CONNECTED and length != n and length % ob0["points"].shape[1] == 0
            if d24:
                self.note("wrong:accepted-ill-formed-D24")
                # the explorer keeps at most 8 failure records per root: only the first two footprints of the
                # recorded defect are filed per root so that they can never crowd out a real violation
                seen = self._d24_filed.get(st["root"], 0)
                self._d24_filed[st["root"]] = seen + 1
                if seen < 2:
                    fails.append(Failure("from_vector", "wrong-length-multiple-of-n_dims", "%s: %s" % (cls, detail), finding="D24"))
                else:
                    self.note("wrong:D24-footprint-counted-not-filed")
            else:
                fails.append(Failure(where, "wrong-length-ill-formed", detail))
        else:
            self.note("wrong:accepted-well-formed")
            self.note("wrong-%s:accepted" % tag)
        return fails

    @staticmethod
    def _length_tag(ob, n, length):
        if length == 0:
            return "0"
        if length == 1:
            return "1"
        if length in (n - 1, n + 1):
            return "n+-1"
        if length == 2 * n:
            return "2n"
        return "other"

    # ------------------------------------------------------------------ reporting
    def vacuity(self, notes, stats):
        from menpo.base import Vectorizable
        import menpo.image  # noqa
        import menpo.shape  # noqa
        import menpo.transform  # noqa

        def subs(c):
            out = []
            for s in c.__subclasses__():
                out.append(s)
                out += subs(s)
            return out

        out = []
        for c in sorted(set(s.__name__ for s in subs(Vectorizable) if s.__module__.startswith("menpo."))):
            if c not in ABSTRACT and not notes.get("class:%s" % c):
                out.append("Vectorizable class %s has no letter" % c)
        need = [
            "asvec:ok",
            "fv:own:shape",
            "fv:own:image",
            "fv:own:transform",
            "fv:zeros:shape",
            "fv:gen:image",
            "fv:gen:transform",
            "fv:quat:transform",
            "fv:ones:image",
            "masked:all",
            "masked:sparse",
            "masked:single",
            "alignment:target-moved",
            "rotation:identity",
            "rotation:half-turn",
            "rotation:generic",
            "wrong:raised:ValueError",
            "wrong:accepted-well-formed",
            "wrong:accepted-ill-formed-D24",
            "wrong-0:raised",
            "wrong-1:accepted",
            "wrong-n+-1:raised",
            "wrong-2n:raised",
            "image-dtype:uint8",
            "image-dtype:float32",
            "image-dtype:float64",
            "compose:accepted",
            "compose:refused:ValueError",
            "compose:accepted:Similarity<-Rotation",
            "fv:own-after-compose",
            "fv:gen-after-compose",
            "size:large-onefalse",
            "size:large-single",
            "equivariance:shape",
            "equivariance:image",
            "equivariance:transform",
            "scale:nearid:transform",
        ]
        need += ["scale:%s:%s" % (v, f) for v in SCALE_VARS for f in ("shape", "image", "transform")]
        if self.tier != "quick":
            need += ["level2:fv", "masked:none", "asvec:len0"]
        out += ["outcome %s never produced" % n for n in need if not notes.get(n)]
        return out

    def rule(self):
        return (
            "every Vectorizable letter (8 shape classes x 2-D/3-D x 0-2 landmark groups, Image/MaskedImage/BooleanImage x shapes x "
            "channels x dtypes x mask kinds, 7 homogeneous classes + 5 alignment variants where vectorizable) x every vector letter "
            "(own, zeros, ones, seeded generic, canonical unit quaternions of an axis-angle grid, every wrong length of the list); "
            "the result of from_vector is the next state (depth 2 in the thorough tier); reference parameterisations in plain numpy"
        )

    def alphabet_sizes(self):
        roots = self.roots()
        return {
            "roots": len(roots),
            "shape_letters": len([r for r in roots if r[0] == "shape"]),
            "image_letters": len([r for r in roots if r[0] == "image"]),
            "transform_letters": len([r for r in roots if r[0] == "transform"]),
            "generic_vectors_per_object": self.n_gen(),
            "quaternions": len(quat_grid(self.tier)),
            "wrong_lengths": "0, 1, n-1, n+1, 2n, plus n-d, n+d, 3n, d (shapes); c, 2c, n-c, n+c, all pixels (images); d, d+1, n//2, n_parameters of the other dimension (transforms)",
            "tolerance_transforms": {"relative_to_magnitude": T_REL, "unit_quaternion": Q_REL},
            "scale_letters": {"factors": list(SCALE_VARS) + ["nearid (deviation 1e-7 from the identity)"], "large_size": list(LARGE), "transform_scale_roots": sum(len(o) for _, _, o in SCALE_TRANSFORMS)},
        }

    def assumptions(self):
        return [
            "Rotation/AlignmentRotation in 2-D and Similarity/AlignmentSimilarity in 3-D are not vectorizable (n_parameters raises NotImplementedError) and are outside the quantifier",
            "generic vectors are seeded draws (payload only); quaternion letters are canonical unit quaternions; a half turn is compared up to sign",
            "[interp] well-formed = own queries of the returned object do not raise and len(as_vector()) == n_parameters; broadcasts (Translation length 1, scales via fill_diagonal, one value per channel under a sparse mask) and an Affine of the other dimension are accepted",
            "bounds()/centre() are not asked of an empty PointCloud (undefined for every empty point cloud)",
            "independence is probed by writing into every writeable buffer of the result; the source of an alignment is shared with its copy by design and exempt",
            "in-place composition letters only produce further objects (their own correctness is C03); a refused partner leaves the letter as it is",
            "keep_channels / n_channels / copy keyword variants of the image methods are outside the property",
            "the number of true pixels of a sparse mask is payload, so which of the listed wrong lengths coincide (and are enumerated once) can differ by one or two letters between seeds",
            "scale letters: payload x 1e-6, 1e-9, 1e6, + 1e6 offset, nearly-identity transforms (1e-7) and 320x320 images with one false / one true mask pixel, on the subset of letters listed in SCALE_TRANSFORMS / roots(); tolerances are relative to the magnitude of the data (T_REL), shapes and images stay bitwise",
            "no offset letter for AlignmentAffine / AlignmentRotation / the scale classes: a common offset of 1e6 makes the affine fit ill-conditioned (not centred) and is meaningless for origin-fixed maps; uint8 / bool payloads have no other magnitude",
            "D24 (open): a wrong length that is another multiple of n_dims accepted by a shape with connectivity whose own queries then fail is reported as KNOWN-FINDING, everything else as VIOLATION",
        ]


CHECK = C05
