"""C18 - features agree on arrays and images, never touch their input, keep annotations attached.

State   : one live image (Image / MaskedImage with landmark groups) together with a raw ndarray holding
          the same pixel data, and the reference model of the annotations (mask array, landmark
          observation scaled by the cumulative shape ratio).
Ops     : every exported feature letter (gradient, gaussian_filter, igo, double_igo, es, daisy with
          step/radius/rings/normalisation/sigma letters, no_op, sum_channels, normalize_std/_norm/_var in
          both modes with both zero-handling flags, `normalize` with no / custom / zero scale).  The
          result of an op is the next state (depth 2 = a feature applied to a feature image).
Oracle  : (a) f(img).pixels == f(raw array) bitwise, both calling conventions refuse together;
          (b) observe(img) and the raw array are unchanged, and the result shares no buffer with them
              (writing into the result leaves the input's observation unchanged);
          (c) the result is a MaskedImage iff the input is, an Image otherwise; the array call gives an array;
          (d) same size => landmarks and mask equal the input's exactly; new size => landmarks equal the
              input's scaled by new_shape / old_shape, the mask has the new shape, stays all-true if it was
              and is the nearest-neighbour resampling of the input mask;
          (e) normalisers: result == (x - mean) / statistic(x - mean) per channel or overall (own numpy
              reference), hence zero mean, unit std / norm, second application of std / norm changes
              nothing; zero statistic => ValueError when error_on_divide_by_zero, otherwise a finite result
              whose offending entries are left centred.
"""
import collections

import numpy as np

from mc.core import Check, Failure
from mc.letters import bare_shape, rs
from mc.observe import buffers, flip, obs_diff, observe, unflip

# [interp] `normalize` is the only feature written against the *image* API (imgfeature): on a MaskedImage it
# reads `as_vector(keep_channels=True)`, i.e. the pixels under the mask, which is menpo's definition of the
# data of a masked image.  With a mask that is not all true "the same data as a raw array" is therefore the
# (C, n_true) matrix of masked pixels: the oracle compares the masked region of the result with the
# reference normalisation of that matrix and does not compare with normalize(img.pixels), which normalises
# other data (all pixels).  Set to False to demand literal agreement with normalize(img.pixels).
NORMALIZE_MASKED_DOMAIN_INTERP = True

EPS = {"float64": 2.3e-16, "float32": 1.2e-7}
FLOOR = {"float64": 1e-9, "float32": 1e-4}
TIE = 1e-6  # nearest-neighbour source coordinates closer than this to x.5 are not compared


# ------------------------------------------------------------------------------------------------
# image letters
# ------------------------------------------------------------------------------------------------
DTYPE_FORMS = ("uint8", "int16", "int32", "int64", "bool", "float32", "float64")


def _img_letters(tier):
    """(kind, shape, channels, dtype, mask kind, n landmark groups, payload)"""
    out = []
    S = (12, 13)
    for kind, mk in (("Image", "-"), ("MaskedImage", "all"), ("MaskedImage", "sparse")):
        for c in (1, 2, 3, 4):
            for dt in ("float64", "float32"):
                out.append((kind, S, c, dt, mk, 2, "rand"))
    # zero-scale letters: constant image / constant channel, 1..3 channels
    for kind, mk in (("Image", "-"), ("MaskedImage", "sparse")):
        for c in (1, 2, 3):
            out.append((kind, (6, 7), c, "float64", mk, 1, "const-all"))
            if c > 1:
                out.append((kind, (6, 7), c, "float64", mk, 1, "const-first"))
        out.append((kind, (6, 7), 3, "float32", mk, 1, "const-last"))
        out.append((kind, (6, 7), 2, "float32", mk, 1, "const-all"))
    out.append(("MaskedImage", (6, 7), 2, "float64", "all", 1, "const-all"))
    out.append(("MaskedImage", (6, 7), 3, "float64", "sparse", 1, "const-under-mask"))
    # sizes at and just above the minimum of each feature (daisy radius 2 needs 5, radius 3 needs 7; gradient 2)
    out.append(("Image", (5, 6), 2, "float64", "-", 2, "rand"))
    out.append(("MaskedImage", (5, 6), 1, "float64", "sparse", 2, "rand"))
    out.append(("MaskedImage", (7, 7), 3, "float32", "all", 2, "rand"))
    out.append(("MaskedImage", (8, 7), 2, "float64", "sparse", 2, "rand"))
    out.append(("Image", (2, 3), 1, "float64", "-", 1, "rand"))
    out.append(("MaskedImage", (2, 2), 2, "float32", "sparse", 1, "rand"))
    # no landmarks / one true pixel / three groups
    out.append(("Image", S, 3, "float64", "-", 0, "rand"))
    out.append(("MaskedImage", S, 1, "float64", "sparse", 0, "rand"))
    out.append(("MaskedImage", S, 2, "float64", "single", 2, "rand"))
    out.append(("MaskedImage", (9, 14), 2, "float64", "sparse", 3, "rand"))
    # 3-D images (gradient / gaussian / no_op / normalisers are n-dimensional; igo, es refuse)
    out.append(("Image", (4, 5, 3), 2, "float64", "-", 1, "rand"))
    out.append(("MaskedImage", (4, 3, 5), 1, "float32", "sparse", 1, "rand"))
    # low contrast but NOT constant, per dtype: statistics below the dtype's machine epsilon yet orders of magnitude
    # above zero ("tiny": values ~ eps/100 around 0; "lowc": 0.5 + sqrt(eps) * u, variance ~ eps/3; "lowc-one": one such channel)
    for kind, mk in (("Image", "-"), ("MaskedImage", "all"), ("MaskedImage", "sparse")):
        for dt in ("float32", "float64"):
            out.append((kind, (6, 7), 2, dt, mk, 1, "tiny"))
            out.append((kind, (6, 7), 2, dt, mk, 1, "lowc"))
            out.append((kind, (6, 7), 3, dt, mk, 1, "lowc-one"))
    # the same integer-valued payload (0..255) presented in every dtype an Image accepts
    for dt in DTYPE_FORMS:
        out.append(("Image", (8, 9), 2, dt, "-", 1, "int"))
        out.append(("MaskedImage", (8, 9), 1, dt, "sparse", 1, "int"))
    if tier == "thorough":
        for S2 in ((13, 12), (9, 16)):
            for kind, mk in (("Image", "-"), ("MaskedImage", "sparse")):
                for c, dt in ((1, "float32"), (3, "float64")):
                    out.append((kind, S2, c, dt, mk, 2, "rand"))
        out.append(("MaskedImage", (6, 5), 1, "float32", "sparse", 2, "rand"))
        out.append(("Image", (7, 8), 4, "float32", "-", 2, "rand"))
        out.append(("MaskedImage", (4, 5, 3), 3, "float64", "all", 1, "rand"))
        out.append(("MaskedImage", S, 4, "float32", "single", 0, "rand"))
    return out


def sparse_mask(shape, seed):
    r = rs(seed, "c18mask", shape)
    for _ in range(1000):
        m = r.rand(*shape) > 0.4
        m.flat[0] = True
        m.flat[1] = False
        m.flat[-1] = False
        if 2 <= m.sum() < m.size:
            return m
    raise RuntimeError("mask guard")


def build_image(spec, seed):
    from menpo.image import Image, MaskedImage

    kind, shp, c, dtype, mkind, k, payload = spec[0], tuple(spec[1]), int(spec[2]), spec[3], spec[4], int(spec[5]), spec[6]
    r = rs(seed, "c18img", kind, shp, c, dtype, mkind)
    if payload == "int":
        vals = rs(seed, "c18int", shp, c).randint(0, 256, size=(c,) + shp)  # the same values for every dtype
        px = (vals > 127) if dtype == "bool" else vals.astype(dtype)
    elif payload in ("tiny", "lowc", "lowc-one"):
        eps = float(np.finfo(dtype).eps)
        u = 2.0 * r.rand(*((c,) + shp)) - 1.0
        if payload == "tiny":
            px = (eps * 1e-2 * u).astype(dtype)
        else:
            px = (0.5 + np.sqrt(eps) * u).astype(dtype)
            if payload == "lowc-one":
                keep = px[1].copy()
                px = (0.05 + r.rand(*((c,) + shp))).astype(dtype)
                px[1] = keep
    else:
        px = (0.05 + r.rand(*((c,) + shp))).astype(dtype)
    mask = None
    if kind == "MaskedImage":
        if mkind == "all":
            mask = np.ones(shp, dtype=bool)
        elif mkind == "single":
            mask = np.zeros(shp, dtype=bool)
            mask.flat[mask.size // 2 + 1] = True
        else:
            mask = sparse_mask(shp, seed)
    # constants are dyadic (k/8) so that the mean of a constant channel is exact and the centred data is exactly zero
    consts = [(1 + int(v)) / 8.0 for v in r.randint(0, 24, size=4)]
    if payload == "const-all":
        px[:] = consts[0]
    elif payload == "const-first":
        px[0] = consts[1]
    elif payload == "const-last":
        px[-1] = consts[2]
    elif payload == "const-under-mask":
        # constant only on the masked pixels (channel 1), arbitrary elsewhere
        px[1][mask] = consts[3]
    elif payload not in ("rand", "int", "tiny", "lowc", "lowc-one"):
        raise ValueError(payload)
    im = Image(px.copy()) if kind == "Image" else MaskedImage(px.copy(), mask=mask.copy())
    classes = ["PointCloud", "LabelledPointUndirectedGraph", "PointUndirectedGraph"]
    for i in range(k):
        g = bare_shape(classes[i % 3], len(shp), seed, ("c18lm", i))
        g.points = g.points * (np.array(shp) - 1) / 6.0
        im.landmarks["g%d.%s" % (i, classes[i % 3][:3])] = g
    return im


# ------------------------------------------------------------------------------------------------
# feature letters
# ------------------------------------------------------------------------------------------------
DAISY_GRID = [("daisy", st, rad, rings, 2, 4, "l1") for rad in (2, 3) for rings in (1, 2) for st in (1, 2, 3)]
DAISY_EXTRA = [
    ("daisy", 1, 2, 1, 2, 4, "l2"),
    ("daisy", 2, 2, 2, 3, 4, "daisy"),
    ("daisy", 1, 3, 1, 2, 3, "off"),
    ("daisy", 1, 2, 1, 1, 8, "l1"),
    ("daisy-sigmas", 1, 2, (1.0, 0.5, 1.0)),  # rings := len(sigmas) - 1
    ("daisy-radii", 2, (1, 2)),  # rings := len(ring_radii), radius := ring_radii[-1]
    ("daisy-both", 1, (0.5, 1.0), (2,)),
    ("daisy-both", 1, (0.5, 1.0), (1, 2)),  # len(sigmas) - 1 != len(ring_radii): refused
    ("daisy-badnorm", 1, 2),
]
NORMALISERS = [(n, mode, err) for n in ("normalize_std", "normalize_norm", "normalize_var") for mode in ("all", "per_channel") for err in (True, False)]
NORMALIZE = (
    [("normalize", sc, mode, True) for sc in ("none", "maxabs", "std") for mode in ("all", "per_channel")]
    + [("normalize", "std", "all", False), ("normalize", "maxabs", "per_channel", False)]
    + [("normalize", "zero", mode, err) for mode in ("all", "per_channel") for err in (True, False)]
    + [("normalize", "none", "bogus-mode", True), ("normalize", "default")]
)
# argument-form letters: the same parameters presented as numpy scalars (np.int64 / np.float64 / np.bool_ / np.str_),
# small numpy ints, tuples / ndarrays instead of lists, 0/1 instead of booleans - only forms the unchanged tree accepts
# (measured; see assumptions() for the forms /repo itself rejects or mishandles).  Each must behave exactly as the
# base letter and give bitwise the same values.
PARAM_FORMS = [
    ("gaussian_filter", 1.5, "@numpy-scalars"),
    ("gaussian_filter", "per-axis", "@numpy-scalars"),
    ("gaussian_filter", "per-axis", "@tuples"),
    ("gaussian_filter", "per-axis", "@ndarrays"),
    ("daisy", 2, 2, 1, 2, 4, "l1", "@numpy-scalars"),
    ("daisy", 1, 3, 2, 2, 4, "l1", "@numpy-small-ints"),
    ("daisy-radii", 2, (1, 2), "@tuples"),
    ("daisy-radii", 2, (1, 2), "@ndarrays"),
    ("daisy-sigmas", 1, 2, (1.0, 0.5, 1.0), "@numpy-scalars"),
    ("sum_channels", "ends", "@ndarrays"),
    ("sum_channels", "first", "@numpy-scalars"),
    ("igo", "double_angles", "@numpy-scalars"),
    ("igo", "double_angles", "@int-flags"),
    ("normalize_std", "per_channel", False, "@numpy-scalars"),
    ("normalize_std", "all", True, "@int-flags"),
    ("normalize_norm", "all", True, "@numpy-scalars"),
    ("normalize_norm", "per_channel", False, "@int-flags"),
    ("normalize_var", "per_channel", True, "@numpy-scalars"),
    ("normalize_var", "all", False, "@int-flags"),
    ("normalize", "std", "per_channel", True, "@numpy-scalars"),
    ("normalize", "maxabs", "all", False, "@int-flags"),
    ("normalize", "zero", "per_channel", False, "@numpy-scalars"),
]
FULL = (
    [("no_op",), ("gradient",), ("gaussian_filter", 0.5), ("gaussian_filter", 1.5), ("gaussian_filter", "per-axis"), ("gaussian_filter-positional", 1.5)]
    + [("igo",), ("double_igo",), ("igo", "double_angles"), ("igo", "verbose"), ("es",), ("es", "verbose")]
    + [("sum_channels", "all"), ("sum_channels", "first"), ("sum_channels", "ends")]
    + [("user-ndfeature", "negate"), ("user-ndfeature", "halve-rows"), ("user-ndfeature", "double-rows"), ("user-imgfeature", "negate")]
    + DAISY_GRID
    + DAISY_EXTRA
    + NORMALISERS
    + NORMALIZE
    + PARAM_FORMS
)
REDUCED = [
    ("no_op",),
    ("gradient",),
    ("gaussian_filter", 1.5),
    ("igo",),
    ("es",),
    ("sum_channels", "all"),
    ("daisy", 1, 2, 1, 2, 4, "l1"),
    ("daisy", 2, 3, 2, 2, 4, "l1"),
    ("normalize_std", "all", True),
    ("normalize_std", "per_channel", False),
    ("normalize_norm", "per_channel", True),
    ("normalize_var", "all", True),
    ("normalize", "maxabs", "per_channel", True),
    ("normalize", "std", "all", True),
]
# second level of the thorough tier: one letter per feature and per normaliser mode, the daisy letters that
# differ in kind (step, radius, rings, normalisation, explicit sigmas), the zero-handling variants
LEVEL2 = REDUCED + [
    ("gaussian_filter", 0.5),
    ("double_igo",),
    ("sum_channels", "first"),
    ("daisy", 3, 2, 2, 2, 4, "l1"),
    ("daisy", 1, 2, 1, 2, 4, "l2"),
    ("daisy", 2, 2, 2, 3, 4, "daisy"),
    ("daisy", 1, 3, 1, 2, 3, "off"),
    ("daisy-sigmas", 1, 2, (1.0, 0.5, 1.0)),
    ("normalize_std", "per_channel", True),
    ("normalize_norm", "all", True),
    ("normalize_norm", "per_channel", False),
    ("normalize_var", "per_channel", True),
    ("normalize_var", "all", False),
    ("normalize", "none", "per_channel", True),
    ("normalize", "maxabs", "all", True),
    ("normalize", "zero", "per_channel", False),
    ("normalize", "zero", "all", True),
    ("user-ndfeature", "halve-rows"),
    ("user-ndfeature", "double-rows"),
    ("user-imgfeature", "negate"),
]
TWO_D_ONLY = ("igo", "double_igo", "es")
GRADIENT_FAMILY = ("gradient", "igo", "double_igo", "es", "daisy", "daisy-sigmas", "daisy-radii", "daisy-both", "daisy-badnorm")
ARRAY_FORMS = ("readonly", "fortran", "strided", "negstride")


def array_form(a, form):
    """the same values in another legal ndarray form"""
    if form == "readonly":
        v = a.copy()
        v.flags.writeable = False
        return v
    if form == "fortran":
        return np.asfortranarray(a)
    sp = tuple(slice(None, None, 2) for _ in a.shape[1:])
    if form == "strided":
        big = np.zeros((a.shape[0],) + tuple(2 * n for n in a.shape[1:]), dtype=a.dtype)
        big[(slice(None),) + sp] = a
        return big[(slice(None),) + sp]
    if form == "negstride":
        return a[:, ::-1].copy()[:, ::-1]
    raise ValueError(form)


def _maxabs(x, axis=None):
    return np.max(np.abs(x), axis=axis)


def _std(x, axis=None):
    return np.std(x, axis=axis)


def _zero(x, axis=None):
    return np.zeros(1) if axis is None else np.zeros(x.shape[0])


SCALES = {"none": None, "maxabs": _maxabs, "std": _std, "zero": _zero}


def daisy_params(op):
    """(radius, step) a daisy letter ends up with (None when the letter is refused before computing)"""
    op = split_form(op)[0]
    if op[0] == "daisy":
        return op[2], op[1]
    if op[0] == "daisy-sigmas":
        return op[2], op[1]
    if op[0] == "daisy-radii":
        return int(op[2][-1]), op[1]
    if op[0] == "daisy-both":
        return int(op[3][-1]), op[1]
    if op[0] == "daisy-badnorm":
        return op[2], op[1]
    return None


def split_form(op):
    """(base letter, parameter-form name or None): a trailing '@form' element presents the same parameters in another legal form"""
    if isinstance(op[-1], str) and op[-1].startswith("@"):
        return tuple(op[:-1]), op[-1][1:]
    return tuple(op), None


def convert_param(v, form):
    """the same parameter value in another form the documented API accepts (scale functions and None are left alone)"""
    if v is None or callable(v):
        return v
    if form == "numpy-scalars":
        if isinstance(v, bool):
            return np.bool_(v)
        if isinstance(v, int):
            return np.int64(v)
        if isinstance(v, float):
            return np.float64(v)
        if isinstance(v, str):
            return np.str_(v)
        if isinstance(v, list):
            return [convert_param(e, form) for e in v]
    if form == "numpy-small-ints":
        if isinstance(v, int) and not isinstance(v, bool):
            return np.int16(v)
        if isinstance(v, list):
            return [convert_param(e, form) for e in v]
    if form == "tuples" and isinstance(v, list):
        return tuple(v)
    if form == "ndarrays" and isinstance(v, list):
        return np.array(v)
    if form == "int-flags" and isinstance(v, bool):
        return int(v)
    return v


def feature_call(op, nd, n_ch):
    """(callable, keyword arguments in their plain python form, quiet) for a base letter"""
    import menpo.feature as F

    k = op[0]
    if k == "no_op":
        return F.no_op, {}, False
    if k in ("user-ndfeature", "user-imgfeature"):
        return _user_features()[(k, op[1])], {}, False
    if k == "gradient":
        return F.gradient, {}, False
    if k == "gaussian_filter":
        return F.gaussian_filter, {"sigma": [0.5, 1.5, 1.0][:nd] if op[1] == "per-axis" else op[1]}, False
    if k == "gaussian_filter-positional":
        return (lambda x, sigma: F.gaussian_filter(x, sigma)), {"sigma": op[1]}, False
    if k == "igo":
        if len(op) == 1:
            return F.igo, {}, False
        if op[1] == "double_angles":
            return F.igo, {"double_angles": True}, False
        return F.igo, {"verbose": True}, True
    if k == "double_igo":
        return F.double_igo, {}, False
    if k == "es":
        return F.es, ({} if len(op) == 1 else {"verbose": True}), len(op) > 1
    if k == "sum_channels":
        return F.sum_channels, {"channels": None if op[1] == "all" else [0] if op[1] == "first" else [0, n_ch - 1]}, False
    if k == "daisy":
        return F.daisy, dict(step=op[1], radius=op[2], rings=op[3], histograms=op[4], orientations=op[5], normalization=None if op[6] == "off" else op[6]), False
    if k == "daisy-sigmas":
        return F.daisy, dict(step=op[1], radius=op[2], rings=7, histograms=2, orientations=4, sigmas=list(op[3])), False
    if k == "daisy-radii":
        return F.daisy, dict(step=op[1], radius=9, rings=7, histograms=2, orientations=4, ring_radii=list(op[2])), False
    if k == "daisy-both":
        return F.daisy, dict(step=op[1], histograms=2, orientations=4, sigmas=list(op[2]), ring_radii=list(op[3])), False
    if k == "daisy-badnorm":
        return F.daisy, dict(step=op[1], radius=op[2], rings=1, histograms=2, orientations=4, normalization="l3"), False
    if k in ("normalize_std", "normalize_norm", "normalize_var"):
        return getattr(F, k), {"mode": op[1], "error_on_divide_by_zero": op[2]}, False
    if k == "normalize":
        if op[1] == "default":
            return F.normalize, {}, False
        return F.normalize, {"scale_func": SCALES[op[1]], "mode": op[2], "error_on_divide_by_zero": op[3]}, False
    raise ValueError(op)


def call_feature(op, x):
    """Call the real feature for letter `op` on x (image or ndarray)."""
    base, form = split_form(op)
    nd = (x.ndim - 1) if isinstance(x, np.ndarray) else x.n_dims
    n_ch = x.shape[0] if isinstance(x, np.ndarray) else x.n_channels
    fn, kw, quiet = feature_call(base, nd, n_ch)
    if form is not None:
        kw = {k: convert_param(v, form) for k, v in kw.items()}
    if quiet:
        return _quiet(lambda: fn(x, **kw))
    return fn(x, **kw)


def _quiet(fn):
    import contextlib
    import io

    with contextlib.redirect_stdout(io.StringIO()):
        return fn()


_USER = {}


def _user_features():
    """features defined by a user through the exported decorators (the mechanism the property anchors):
    a size-keeping, a shrinking (rows only: anisotropic) and a growing ndfeature, and an imgfeature"""
    if not _USER:
        import menpo.feature as F

        @F.ndfeature
        def negate(pixels):
            return 0 - pixels

        @F.ndfeature
        def halve_rows(pixels):
            return pixels[:, ::2].copy()

        @F.ndfeature
        def double_rows(pixels):
            return np.repeat(pixels, 2, axis=1)

        @F.imgfeature
        def img_negate(image):
            new = image.copy()
            new.pixels = 0 - new.pixels
            return new

        _USER[("user-ndfeature", "negate")] = negate
        _USER[("user-ndfeature", "halve-rows")] = halve_rows
        _USER[("user-ndfeature", "double-rows")] = double_rows
        _USER[("user-imgfeature", "negate")] = img_negate
    return _USER


def letter_name(op):
    op, form = split_form(op)
    if form is not None:
        return "%s@%s" % (letter_name(op), form)
    k = op[0]
    if k.startswith("daisy"):
        return k
    if k in ("normalize_std", "normalize_norm", "normalize_var"):
        return "%s-%s" % (k, op[1])
    if k == "normalize":
        return "normalize-%s" % ("default" if op[1] == "default" else "%s-%s" % (op[1], op[2]))
    if k.startswith("gaussian_filter"):
        return "gaussian_filter"
    return k if len(op) == 1 else "%s-%s" % (k, op[1])


# ------------------------------------------------------------------------------------------------
# reference models (plain numpy)
# ------------------------------------------------------------------------------------------------
def normaliser_of(op):
    """(statistic name, mode, error flag) for normalising letters, else None"""
    op = split_form(op)[0]
    k = op[0]
    if k in ("normalize_std", "normalize_norm", "normalize_var"):
        return k.split("_")[1], op[1], op[2]
    if k == "normalize":
        if op[1] == "default":
            return "none", "all", True
        return op[1], op[2], op[3]
    return None


def ref_stat(name, c, axis):
    """statistic of the centred data c (float array), overall (axis None) or per row (axis 1)"""
    if name == "none":
        return np.ones(1) if axis is None else np.ones(c.shape[0])
    if name == "zero":
        return np.zeros(1) if axis is None else np.zeros(c.shape[0])
    if name == "std":
        return np.atleast_1d(np.sqrt(np.mean(c * c, axis=axis) - np.mean(c, axis=axis) ** 2))
    if name == "var":
        return np.atleast_1d(np.mean(c * c, axis=axis) - np.mean(c, axis=axis) ** 2)
    if name == "norm":
        return np.atleast_1d(np.sqrt(np.sum(c * c, axis=axis)))
    if name == "maxabs":
        return np.atleast_1d(np.max(np.abs(c), axis=axis))
    raise ValueError(name)


NATIVE = {
    "none": lambda c, axis: np.ones(1),
    "zero": lambda c, axis: np.zeros(1),
    "std": lambda c, axis: np.std(c, axis=axis),
    "var": lambda c, axis: np.var(c, axis=axis),
    "norm": lambda c, axis: np.linalg.norm(c, axis=axis),
    "maxabs": lambda c, axis: np.max(np.abs(c), axis=axis),
}


def ref_normalise(data, name, mode):
    """data: (C, N) in its own dtype.  Returns dict with the float64 reference (centred, stat, result),
    which statistics are exactly zero in the data's own arithmetic, and a conditioning number."""
    axis = None if mode == "all" else 1
    x = data.astype(np.float64)
    if mode == "all":
        c = x - x.mean()
        cn = data - np.mean(data)
    else:
        c = x - x.mean(axis=1, keepdims=True)
        cn = data - np.mean(data, axis=1, keepdims=True)
    stat = ref_stat(name, c, axis)
    native = np.atleast_1d(NATIVE[name](cn, axis)).astype(np.float64)
    if native.shape != stat.shape:
        native = np.broadcast_to(native, stat.shape)
    zero = native == 0
    # a zero statistic is *predicted* only where it does not depend on the order of summation: the unit (whole
    # data / channel) is a single value, or constant and a small multiple of 1/8 (every partial sum and the mean are exact)
    units = [data.reshape(-1)] if mode == "all" else [row for row in data]
    exact = np.array([bool(u.size == 1 or (u.size and u.max() == u.min() and float(u.flat[0]) * 8 == np.round(float(u.flat[0]) * 8) and abs(float(u.flat[0])) <= 64)) for u in units])
    if name == "zero":
        exact = np.ones_like(exact)
    if name == "none":
        exact = np.zeros_like(exact)
    # spread of the centred data relative to the size of the data: rounding of the mean is amplified by this
    spread = np.atleast_1d(np.sqrt(np.mean(c * c, axis=axis)))
    big = np.atleast_1d(np.max(np.abs(x), axis=axis)) if x.size else np.ones_like(spread)
    with np.errstate(divide="ignore", invalid="ignore"):
        cond = np.where(spread > 0, big / spread, np.inf)
        if name in ("none", "zero"):
            cond = np.ones_like(cond)
        safe = np.where(stat == 0, 1.0, stat)
        res = c / (safe if mode == "all" else safe.reshape(-1, 1))
    if exact.shape != zero.shape:
        exact = np.broadcast_to(exact, zero.shape)
    return {"c": c, "stat": stat, "native": native, "zero": zero & exact, "fragile": (zero & ~exact) | (exact & ~zero), "cond": cond, "res": res, "axis": axis}


def ref_mask_resize(mask, new_shape):
    """nearest-neighbour resampling of a boolean mask on the index grid: output index i reads source
    coordinate i * (old - 1) / (new - 1).  Returns (expected, comparable) - comparable is False where a
    source coordinate is a rounding tie or a dimension collapses to one pixel (no index scale defined)."""
    old = np.array(mask.shape, dtype=float)
    new = np.array(new_shape, dtype=float)
    idx = []
    ok = []
    for k in range(len(new_shape)):
        i = np.arange(new_shape[k], dtype=float)
        if new_shape[k] == 1 or mask.shape[k] == 1:
            src = np.zeros_like(i)
            good = np.zeros(len(i), dtype=bool)
        else:
            src = i * (old[k] - 1) / (new[k] - 1)
            good = np.abs(np.abs(src - np.floor(src)) - 0.5) > TIE
        idx.append(np.clip(np.floor(src + 0.5).astype(int), 0, mask.shape[k] - 1))
        ok.append(good)
    grid = np.ix_(*idx)
    okg = np.ones(new_shape, dtype=bool)
    for k, g in enumerate(ok):
        shp = [1] * len(new_shape)
        shp[k] = len(g)
        okg = okg & g.reshape(shp)
    return mask[grid], okg


def scale_lm_obs(o, factor):
    """copy of a landmark-manager observation with every `points` array multiplied by factor"""
    if isinstance(o, dict):
        out = collections.OrderedDict()
        for k, v in o.items():
            if k == "points" and isinstance(v, np.ndarray):
                out[k] = v * factor
            else:
                out[k] = scale_lm_obs(v, factor)
        return out
    if isinstance(o, list):
        return [scale_lm_obs(v, factor) for v in o]
    if isinstance(o, np.ndarray):
        return o.copy()
    return o


# ------------------------------------------------------------------------------------------------
class C18(Check):
    id = "C18"
    title = "features agree on arrays and images, never modify their input and keep landmarks and mask attached"

    def depth(self):
        return 1 if self.tier == "quick" else 2

    def _shards(self):
        return 1 if self.tier == "quick" else 3

    def roots(self):
        n = self._shards()
        return [spec + (s, n) for spec in _img_letters(self.tier) for s in range(n)]

    # ------------------------------------------------------------------ state
    def build(self, root):
        img = build_image(root[:7], self.seed)
        masked = type(img).__name__ == "MaskedImage"
        model = {
            "masked": masked,
            "mask": img.mask.pixels[0].copy() if masked else None,
            "mask_known": None,
            "lm0": observe(img.landmarks) if img.has_landmarks else None,
            "shape0": tuple(img.shape),
            "shape": tuple(img.shape),
        }
        if masked:
            model["mask_known"] = np.ones(img.shape, dtype=bool)
        return {"img": img, "arr": np.array(img.pixels, copy=True), "model": model, "root": root, "names": []}

    def canon(self, st):
        # exact (bitwise) key: the payload alphabet contains values far below any fixed rounding (the "tiny" letters)
        return (_exact_key(observe(st["img"])), _exact_key(st["arr"]))

    # ------------------------------------------------------------------ alphabet
    def _enabled(self, st, op):
        img = st["img"]
        S = img.shape
        op = split_form(op)[0]
        k = op[0]
        if not np.all(np.isfinite(st["arr"])):
            return False  # non-finite data (es of a constant image) is outside the quantifier
        if st["arr"].dtype == bool and k in GRADIENT_FAMILY and not (k == "daisy-both" and len(op[2]) - 1 != len(op[3])) and k != "daisy-badnorm":
            return False  # numpy itself refuses to subtract booleans: gradients of bool pixels are not defined
        dp = daisy_params(op)
        if dp is not None:
            if img.n_dims != 2:
                return False
            if k == "daisy-both" and len(op[2]) - 1 != len(op[3]):
                return True  # refused before anything is computed
            return min(S) > 2 * dp[0]
        if k in ("gradient",) + TWO_D_ONLY:
            # np.gradient needs two samples per axis; igo / es refuse images that are not 2-D (kept as refusal letters)
            return min(S) >= 2
        if k == "normalize" and hasattr(img, "mask") and not img.mask.pixels.any():
            return False  # a masked image without a single true pixel has no data to normalise
        if k == "sum_channels" and op[1] == "ends":
            return img.n_channels >= 2
        return True

    def ops(self, st, level):
        alphabet = FULL if level == 0 else LEVEL2
        out = [o for o in alphabet if self._enabled(st, o)]
        if level == 0:
            s, n = st["root"][7], st["root"][8]
            out = [o for i, o in enumerate(out) if i % n == s]
        return out

    # ------------------------------------------------------------------ step
    def apply(self, st, op, verify=True):
        from menpo.image import Image, MaskedImage

        img, arr, model = st["img"], st["arr"], st["model"]
        name = letter_name(op)
        full_op = op
        op, pform = split_form(op)
        masked = isinstance(img, MaskedImage)
        old_shape = tuple(img.shape)
        nd = img.n_dims
        fails = []

        def call(x):
            try:
                return call_feature(full_op, x), None
            except (ValueError, TypeError, IndexError, ZeroDivisionError, FloatingPointError) as e:
                return None, e

        if not verify:
            with np.errstate(all="ignore"):
                r_img, e1 = call(img)
                r_arr, e2 = call(arr)
            if e1 is None and e2 is None and not self._same_state(st, r_img, r_arr):
                self._advance(st, full_op, r_img, r_arr, old_shape)
            return fails

        before = observe(img)
        arr_before = arr.copy()
        mask_all_true = bool(masked and img.mask.pixels.all())
        masked_domain = bool(op[0] == "normalize" and masked and not mask_all_true and NORMALIZE_MASKED_DOMAIN_INTERP)

        # ---- what the model expects: refusal or value
        expect_refusal = None
        refusal_class = ValueError
        nz = normaliser_of(op)
        ref_full = ref_dom = None
        if op[0] == "daisy-both" and len(op[2]) - 1 != len(op[3]):
            expect_refusal = "daisy-sigmas-radii-mismatch"
        elif op[0] == "daisy-badnorm":
            expect_refusal = "daisy-unknown-normalisation"
        elif op[0] in GRADIENT_FAMILY and arr.dtype == np.uint8:
            expect_refusal, refusal_class = "uint8-gradient", TypeError  # stated by gradient(): uint8 is refused
        elif op[0] in TWO_D_ONLY and nd != 2:
            expect_refusal = "not-2d"
        elif nz is not None and nz[1] not in ("all", "per_channel"):
            expect_refusal = "unknown-mode"
        elif nz is not None:
            flat = arr.reshape(arr.shape[0], -1)
            ref_full = ref_normalise(flat, nz[0], nz[1])
            if masked_domain:
                ref_dom = ref_normalise(np.ascontiguousarray(arr[:, img.mask.pixels[0]]), nz[0], nz[1])

        with np.errstate(all="ignore"):
            r_img, exc_img = call(img)
            r_arr, exc_arr = call(arr)

        # ---- (b) purity, whatever happened
        d = obs_diff(before, observe(img))
        if d is not None:
            fails.append(Failure(name, "input-image-modified", "observe(image) changed by the call: %s" % d))
        if not (arr.shape == arr_before.shape and np.array_equal(arr, arr_before, equal_nan=True)):
            fails.append(Failure(name, "input-array-modified", "raw array changed by the call (max abs %.3g)" % _maxdiff(arr, arr_before)))
        if fails:
            return fails

        # ---- refusals
        def zero_state(ref):
            """'zero'   some statistic is exactly zero whatever the order of summation (refusal / skip demanded);
            'ill'    a statistic that rounding alone could make zero or not (either outcome accepted);
            'ok' / 'coarse' / 'blind'  every statistic is firmly non-zero (a refusal or a skip is a failure), values
                     judged with the fine tolerance / with a tolerance up to 0.5 relative / not judged"""
            if ref is None:
                return "ok"
            eps = EPS[str(arr.dtype)] if str(arr.dtype) in EPS else EPS["float64"]
            nonzero = ~ref["zero"]
            if np.any(ref["fragile"]) or np.any((ref["cond"] * eps >= 1e-2) & nonzero):
                return "ill"
            if np.any(ref["zero"]):
                return "zero"
            f = float(np.max(1e3 * eps * ref["cond"]))
            return "ok" if f <= 1e-2 else "coarse" if f <= 0.5 else "blind"

        zs_arr = zero_state(ref_full)
        zs_img = zero_state(ref_dom) if masked_domain else zs_arr
        if expect_refusal is None and nz is not None:
            err_flag = nz[2]
            exp_arr_raise = zs_arr == "zero" and err_flag
            exp_img_raise = zs_img == "zero" and err_flag
            for who, zs, exp, exc, res in (("array", zs_arr, exp_arr_raise, exc_arr, r_arr), ("image", zs_img, exp_img_raise, exc_img, r_img)):
                if zs == "ill":
                    self.note("%s:ill-conditioned-%s" % (name, who))
                    continue
                if exp and not isinstance(exc, ValueError):
                    fails.append(Failure(name, "zero-scale-not-refused", "%s call: a scale statistic is exactly 0 and error_on_divide_by_zero=True: expected ValueError, got %s" % (who, _short(exc, res))))
                if not exp and exc is not None:
                    clause = "zero-scale-not-skipped" if zs == "zero" else "nonzero-scale-refused"
                    fails.append(Failure(name, clause, "%s call raised %s: %s (zero statistic: %s, error_on_divide_by_zero=%s, smallest statistic %.3g)" % (who, type(exc).__name__, exc, zs == "zero", err_flag, _smallest(ref_dom if (who == "image" and masked_domain) else ref_full))))
                if zs in ("ok", "coarse", "blind") and arr.dtype.kind == "f":
                    small = _smallest(ref_dom if (who == "image" and masked_domain) else ref_full)
                    if 0 < small <= float(np.finfo(arr.dtype).eps):
                        self.note("tiny-scale:%s-%s-%s" % (arr.dtype, nz[1], who))
            if fails:
                return fails
            if exc_img is not None or exc_arr is not None:
                if zs_arr != "ill" and zs_img != "ill":
                    self.note("%s:refused-zero-scale" % name)
                    self.note("zero:refused-%s" % nz[1])
                    if not st["names"]:
                        fails.extend(self._check_forms(name, full_op, img, arr_before, r_img, r_arr, exc_img, exc_arr, masked))
                    return fails
                # ill-conditioned: only demand that neither call produced non-finite data
                self.note("%s:ill-conditioned-refused" % name)
                return fails
        elif expect_refusal is not None:
            for who, exc, res in (("array", exc_arr, r_arr), ("image", exc_img, r_img)):
                if not isinstance(exc, refusal_class):
                    fails.append(Failure(name, "refusal", "%s call: expected %s (%s), got %s" % (who, refusal_class.__name__, expect_refusal, _short(exc, res))))
            self.note("%s:refused-%s" % (name, expect_refusal))
            if not fails and not st["names"]:
                fails.extend(self._check_forms(name, full_op, img, arr_before, r_img, r_arr, exc_img, exc_arr, masked))
            return fails
        else:
            for who, exc in (("array", exc_arr), ("image", exc_img)):
                if exc is not None:
                    fails.append(Failure(name, "raised", "%s call raised %s: %s" % (who, type(exc).__name__, exc)))
            if fails:
                return fails

        # ---- (c) kinds
        if not isinstance(r_arr, np.ndarray):
            fails.append(Failure(name, "array-call-result-kind", "feature(ndarray) returned %s" % type(r_arr).__name__))
            return fails
        want = MaskedImage if masked else Image
        if type(r_img) is not want:
            fails.append(Failure(name, "result-kind", "feature(%s) returned %s" % (type(img).__name__, type(r_img).__name__)))
            return fails
        if r_img is img or r_arr is arr:
            fails.append(Failure(name, "result-is-input", "the feature returned its own argument"))
            return fails

        # ---- (a) same values from both calling conventions
        if masked_domain:
            self.note("normalize:masked-domain")
        else:
            if r_img.pixels.shape != r_arr.shape:
                fails.append(Failure(name, "array-vs-image", "shapes differ: image call %s, array call %s" % (r_img.pixels.shape, r_arr.shape)))
                return fails
            if not np.array_equal(r_img.pixels, r_arr, equal_nan=True):
                fails.append(Failure(name, "array-vs-image", "feature(image).pixels != feature(image.pixels): max abs %.3g" % _maxdiff(r_img.pixels, r_arr)))
                return fails
        new_shape = tuple(r_img.shape)
        if len(new_shape) != nd:
            fails.append(Failure(name, "result-dims", "result has %d spatial dimensions, input %d" % (len(new_shape), nd)))
            return fails
        changed = new_shape != old_shape
        self.note("%s:%s" % (name, "size-changed" if changed else "same-size"))
        self.note("size:%s-%s" % ("changed" if changed else "same", "masked" if masked else "plain"))
        if op[0] == "no_op" and not np.array_equal(r_arr, arr_before, equal_nan=True):
            fails.append(Failure(name, "no-op-value", "no_op changed the values (max abs %.3g)" % _maxdiff(r_arr, arr_before)))

        # ---- (d) annotations
        fails.extend(self._check_annotations(name, before, r_img, masked, old_shape, new_shape, changed, model, mask_all_true))
        if fails:
            return fails

        # ---- (e) normalisers
        if nz is not None:
            fails.extend(self._check_normaliser(name, op, nz, img, arr_before, r_img, r_arr, ref_full, ref_dom, masked_domain, zs_arr, zs_img))
            if fails:
                return fails

        # ---- (b') independence of the result from the input
        fails.extend(self._check_independent(name, img, arr, arr_before, before, r_img, r_arr))
        if fails:
            return fails

        # ---- argument forms: the same parameters / the same pixel data in another legal form
        if pform is not None:
            with np.errstate(all="ignore"):
                b_arr = call_feature(op, arr)
                b_img = call_feature(op, img)
            if not (b_arr.shape == r_arr.shape and np.array_equal(b_arr, r_arr, equal_nan=True)):
                fails.append(Failure(name, "parameter-form", "array call: parameters as %s give other values than the plain python form (max abs %.3g)" % (pform, _maxdiff(b_arr, r_arr))))
            d = obs_diff(observe(b_img), observe(r_img))
            if d is not None:
                fails.append(Failure(name, "parameter-form", "image call: parameters as %s give another result than the plain python form: %s" % (pform, d)))
            self.note("param-form:%s" % pform)
        if not st["names"]:
            fails.extend(self._check_forms(name, full_op, img, arr_before, r_img, r_arr, None, None, masked))
        if not fails and not st["names"]:
            fails.extend(self._check_reuse(name, full_op, st, img, arr_before, r_img, r_arr, masked))
        if fails:
            return fails

        self.note("level%d:%s" % (len(st["names"]) + 1, "masked" if masked else "plain"))
        if not st["names"] and (nz is not None or op[0] in ("no_op", "gaussian_filter", "sum_channels")):
            self.note("dtype:%s-%s" % (arr.dtype, "masked" if masked else "plain"))
        if not self._same_state(st, r_img, r_arr):
            # a result indistinguishable from the input (no_op, centring of centred data) is a self loop: the
            # state object is kept, so that `names` counts the features that really produced this state
            self._advance(st, full_op, r_img, r_arr, old_shape)
        return fails

    def _check_forms(self, name, full_op, img, arr, r_img, r_arr, exc_img, exc_arr, masked):
        """the raw array as a read-only / Fortran-ordered / strided / negatively strided view and the image holding a
        read-only pixel buffer must behave exactly like the plain contiguous writable forms (root states only)"""
        from menpo.image import Image, MaskedImage

        fails = []

        def call(x):
            try:
                with np.errstate(all="ignore"):
                    return call_feature(full_op, x), None
            except (ValueError, TypeError, IndexError, ZeroDivisionError, FloatingPointError) as e:
                return None, e

        for form in ARRAY_FORMS:
            v = array_form(arr, form)
            keep = np.array(v, copy=True)
            rv, ev = call(v)
            if not np.array_equal(np.asarray(v), keep, equal_nan=True):
                fails.append(Failure(name, "input-array-modified", "%s array changed by the call" % form))
            if (ev is None) != (exc_arr is None) or (ev is not None and type(ev) is not type(exc_arr)):
                fails.append(Failure(name, "array-form", "%s array: %s, plain array: %s" % (form, _short(ev, rv), _short(exc_arr, r_arr))))
            elif ev is None and not (isinstance(rv, np.ndarray) and rv.shape == r_arr.shape and np.array_equal(rv, r_arr, equal_nan=True)):
                fails.append(Failure(name, "array-form", "%s array gives other values than the contiguous writable array (max abs %.3g)" % (form, _maxdiff(rv, r_arr))))
            self.note("form:array-%s" % form)
        px = np.array(img.pixels, copy=True)
        px.flags.writeable = False
        im2 = MaskedImage(px, mask=img.mask.pixels[0].copy(), copy=False) if masked else Image(px, copy=False)
        if img.has_landmarks:
            im2.landmarks = img.landmarks
        shares = np.shares_memory(im2.pixels, px)
        before2 = observe(im2)
        r2, e2 = call(im2)
        d = obs_diff(before2, observe(im2))
        if d is not None:
            fails.append(Failure(name, "input-image-modified", "image over a read-only pixel buffer changed by the call: %s" % d))
        if (e2 is None) != (exc_img is None) or (e2 is not None and type(e2) is not type(exc_img)):
            fails.append(Failure(name, "image-form", "image over a read-only pixel buffer: %s, plain image: %s" % (_short(e2, r2), _short(exc_img, r_img))))
        elif e2 is None:
            d = obs_diff(observe(r_img), observe(r2))
            if d is not None:
                fails.append(Failure(name, "image-form", "image over a read-only pixel buffer gives another result: %s" % d))
        self.note("form:image-readonly-pixels%s" % ("" if shares else "-copied"))
        return fails

    # features that may share intermediate results with the feature under test (one letter per feature family that
    # computes something another feature could keep: the gradient, the orientation / edge features built on it, daisy)
    PREVIOUS = [("gradient",), ("igo",), ("es",), ("daisy", 1, 2, 1, 2, 4, "l1")]

    def _check_reuse(self, name, full_op, st, img, arr, r_img, r_arr, masked):
        """ONE live array and ONE live image are used across calls (root states): the feature is called on a live
        object holding other data, on a second live object, again on the first (alternation), then each object is
        refilled IN PLACE through its public pixel buffer and the feature is called again; then another feature is
        called on the same live object before the data is replaced / before the feature under test is called.  Every
        result must equal the result on a freshly built object holding the same data (anything memoised on the
        object, on its buffer's identity, or at module level would show as a stale result)."""
        from menpo.image import Image, MaskedImage

        fails = []
        alt = np.array(arr[(slice(None), slice(None, None, -1)) + (Ellipsis, slice(None, None, -1))] if arr.ndim > 2 else arr[:, ::-1], copy=True)
        if alt.shape != arr.shape or np.array_equal(alt, arr, equal_nan=True):
            alt = np.array(arr, copy=True)
            flat = alt.reshape(alt.shape[0], -1)
            half = flat[:, : max(1, flat.shape[1] // 2)]
            if alt.dtype == bool:
                half[...] = ~half
            elif alt.dtype.kind in "iu":
                half[...] = np.where(half > 0, half - 1, half + 1)
            else:
                half[...] = half * 0.5 + 0.125
        self.note("reuse:alt-data-%s" % ("differs" if not np.array_equal(alt, arr, equal_nan=True) else "equal"))

        def call(op_, x):
            try:
                with np.errstate(all="ignore"):
                    return call_feature(op_, x), None
            except (ValueError, TypeError, IndexError, ZeroDivisionError, FloatingPointError) as e:
                return None, e

        def mk_img(px):
            im = MaskedImage(np.array(px, copy=True), mask=img.mask.pixels[0].copy()) if masked else Image(np.array(px, copy=True))
            if img.has_landmarks:
                im.landmarks = img.landmarks
            return im

        def same(kind, got, exp):
            (rg, eg), (re_, ee) = got, exp
            if (eg is None) != (ee is None) or (eg is not None and type(eg) is not type(ee)):
                return "%s vs fresh object: %s" % (_short(eg, rg), _short(ee, re_))
            if eg is not None:
                return None
            if kind == "array":
                if not (isinstance(rg, np.ndarray) and rg.shape == re_.shape and np.array_equal(rg, re_, equal_nan=True)):
                    return "values differ from the fresh call (max abs %.3g)" % _maxdiff(rg, re_)
                return None
            return obs_diff(observe(re_), observe(rg))

        for kind in ("array", "image"):
            if kind == "array":
                fresh = lambda d: np.array(d, copy=True)  # noqa: E731
                refill = lambda x, d: x.__setitem__(Ellipsis, d)  # noqa: E731
                held = lambda x: x  # noqa: E731
            else:
                fresh = mk_img
                refill = lambda x, d: x.pixels.__setitem__(Ellipsis, d)  # noqa: E731
                held = lambda x: x.pixels  # noqa: E731
            data = {"cur": arr, "alt": alt}
            # references first, each on an object of its own
            ref = {"cur": ((r_arr if kind == "array" else r_img), None), "alt": call(full_op, fresh(alt))}
            X, Y = fresh(alt), fresh(arr)
            steps = [
                ("first-use", X, "alt", None),
                ("second-object", Y, "cur", None),
                ("alternate", X, "alt", None),
                ("refill", X, "cur", "cur"),
                ("refill", Y, "alt", "alt"),
                ("repeat", Y, "alt", None),
            ]
            for what, obj, holds, fill in steps:
                if fill is not None:
                    refill(obj, data[fill])
                d = same(kind, call(full_op, obj), ref[holds])
                self.note("reuse:%s-%s" % (what, kind))
                if d is not None:
                    fails.append(Failure(name, "live-object-reuse", "%s: feature on a live %s (%s, holding the %s data): %s" % (what, kind, "refilled in place" if fill else "used before", holds, d)))
                    return fails
            # another feature on the same live object before the data is replaced / before the feature under test
            now = "alt"  # what Y holds
            for g in self.PREVIOUS:
                if not self._enabled(st, g):
                    continue
                gname = letter_name(g)
                call(g, Y)
                other = "cur" if now == "alt" else "alt"
                refill(Y, data[other])
                now = other
                d = same(kind, call(full_op, Y), ref[now])
                if d is None:
                    call(g, Y)
                    d = same(kind, call(full_op, Y), ref[now])
                self.note("reuse:after-%s-%s" % (gname, kind))
                if d is not None:
                    fails.append(Failure(name, "live-object-reuse", "after %s on the same live %s (data then replaced in place by the %s data): %s" % (gname, kind, now, d)))
                    return fails
            if not np.array_equal(held(Y), data[now], equal_nan=True) or not np.array_equal(held(X), data["cur"], equal_nan=True):
                fails.append(Failure(name, "input-array-modified" if kind == "array" else "input-image-modified", "a live %s was changed by the calls" % kind))
        return fails

    def _same_state(self, st, r_img, r_arr):
        # the same criterion as canon(): the explorer keeps the live object exactly when this holds
        return (_exact_key(observe(r_img)), _exact_key(r_arr)) == self.canon(st)

    def _advance(self, st, op, r_img, r_arr, old_shape):
        from menpo.image import MaskedImage

        model = st["model"]
        new_shape = tuple(r_img.shape)
        img = st["img"]
        if new_shape != old_shape and model["masked"]:
            exp, known = ref_mask_resize(model["mask"], new_shape)
            # positions the reference cannot decide (ties, collapsed axes) follow the implementation
            real = r_img.mask.pixels[0] if isinstance(r_img, MaskedImage) and r_img.mask.pixels[0].shape == exp.shape else exp
            was_known = ref_mask_resize(model["mask_known"].astype(bool), new_shape)[0]
            model["mask"] = np.where(known, exp, real)
            model["mask_known"] = known & was_known
        model["shape"] = new_shape
        masked_sparse = isinstance(img, MaskedImage) and not img.mask.pixels.all()
        st["img"] = r_img
        if op[0] == "normalize" and masked_sparse and NORMALIZE_MASKED_DOMAIN_INTERP:
            st["arr"] = np.array(r_img.pixels, copy=True)  # the two calls worked on different data (see [interp])
        else:
            st["arr"] = r_arr
        st["names"].append(letter_name(op))

    # ------------------------------------------------------------------ oracles
    def _check_annotations(self, name, before, r_img, masked, old_shape, new_shape, changed, model, mask_all_true):
        fails = []
        had_lm = "landmarks" in before
        if r_img.has_landmarks != had_lm:
            fails.append(Failure(name, "landmarks-presence", "input has landmarks: %s, result has landmarks: %s" % (had_lm, r_img.has_landmarks)))
            return fails
        factor = np.array(new_shape, dtype=float) / np.array(old_shape, dtype=float)
        cum = np.array(new_shape, dtype=float) / np.array(model["shape0"], dtype=float)
        if had_lm:
            got = observe(r_img.landmarks)
            if not changed:
                d = obs_diff(before["landmarks"], got)
                if d is not None:
                    fails.append(Failure(name, "landmarks-same-size", "feature keeps the size %s but the landmarks differ from the input's: %s" % (old_shape, d)))
                self.note("lm:unchanged")
            else:
                exp = scale_lm_obs(before["landmarks"], factor)
                d = obs_diff(exp, got, atol=1e-9, rtol=1e-12)
                if d is not None:
                    fails.append(Failure(name, "landmarks-rescaled", "size %s -> %s: landmarks are not the input's scaled by %s: %s" % (old_shape, new_shape, factor.tolist(), d)))
                self.note("lm:scaled")
                if factor[0] != factor[-1]:
                    self.note("lm:scaled-anisotropic")
            # cumulative model: root landmarks scaled by current shape / root shape
            d = obs_diff(scale_lm_obs(model["lm0"], cum), got, atol=1e-8, rtol=1e-11)
            if d is not None and not fails:
                fails.append(Failure(name, "landmarks-model", "landmarks differ from the root landmarks scaled by %s: %s" % (cum.tolist(), d)))
        else:
            self.note("lm:none")
        if masked:
            got = r_img.mask.pixels
            if got.shape != (1,) + new_shape or got.dtype != bool:
                fails.append(Failure(name, "mask-shape", "result shape %s but mask pixels %s %s" % (new_shape, got.shape, got.dtype)))
                return fails
            got = got[0]
            if not changed:
                if not np.array_equal(got, before["mask"][0]):
                    fails.append(Failure(name, "mask-same-size", "feature keeps the size but %d mask pixels differ from the input's" % int((got != before["mask"][0]).sum())))
                self.note("mask:unchanged-%s" % ("all-true" if mask_all_true else "sparse"))
            else:
                if mask_all_true:
                    if not got.all():
                        fails.append(Failure(name, "mask-all-true-lost", "all-true mask resized %s -> %s has %d false pixels" % (old_shape, new_shape, int((~got).sum()))))
                    self.note("mask:resized-all-true")
                else:
                    exp, known = ref_mask_resize(before["mask"][0], new_shape)
                    bad = (exp != got) & known
                    if bad.any():
                        fails.append(Failure(name, "mask-rescaled", "size %s -> %s: %d of %d comparable mask pixels differ from the nearest-neighbour resampling of the input mask" % (old_shape, new_shape, int(bad.sum()), int(known.sum()))))
                    if known.any():
                        self.note("mask:resized-sparse")
                        if exp[known].any() and not exp[known].all():
                            self.note("mask:resized-sparse-mixed")
                    else:
                        self.note("mask:resized-sparse-undecided")
                    # the design's formulation: equals mask.resize(new_shape) of the input mask
                    try:
                        from menpo.image import BooleanImage

                        alt = BooleanImage(before["mask"][0].copy()).resize(new_shape).pixels[0]
                        if alt.shape == got.shape and not np.array_equal(alt, got):
                            fails.append(Failure(name, "mask-rescaled", "mask differs from input.mask.resize(%s) in %d pixels" % (new_shape, int((alt != got).sum()))))
                    except Exception:  # noqa - resize of degenerate shapes is not this property's business
                        self.note("mask:resize-reference-unavailable")
            # cumulative model
            mm, known = model["mask"], model["mask_known"]
            if not changed and mm.shape == got.shape and ((mm != got) & known).any() and not fails:
                fails.append(Failure(name, "mask-model", "mask differs from the model mask in %d pixels" % int(((mm != got) & known).sum())))
        elif hasattr(r_img, "mask"):
            fails.append(Failure(name, "result-kind", "unmasked input but the result has a mask"))
        return fails

    def _check_normaliser(self, name, op, nz, img, x, r_img, r_arr, ref_full, ref_dom, masked_domain, zs_arr, zs_img):
        fails = []
        stat, mode, err = nz
        dt = str(x.dtype) if str(x.dtype) in EPS else "float64"
        pairs = [("array", r_arr.reshape(r_arr.shape[0], -1), ref_full, zs_arr)]
        if masked_domain:
            m = img.mask.pixels[0]
            pairs.append(("image", r_img.pixels[:, m], ref_dom, zs_img))
        for who, got, ref, zs in pairs:
            if not np.all(np.isfinite(got)):
                fails.append(Failure(name, "non-finite", "%s call produced %d non-finite values" % (who, int((~np.isfinite(got)).sum()))))
                continue
            if zs in ("ill", "blind"):
                self.note("%s:values-not-judged" % name)
                continue
            got = got.astype(np.float64)
            zero = ref["zero"]
            if mode == "all":
                exp = ref["c"] if zero.any() else ref["res"]
                condmax = float(np.max(ref["cond"]))
            else:
                exp = np.where(zero.reshape(-1, 1), ref["c"], ref["res"])
                condmax = float(np.max(ref["cond"][~zero])) if (~zero).any() else 1.0
            tol = max(FLOOR[dt], 1e3 * EPS[dt] * condmax) * (1.0 + float(np.max(np.abs(exp))) if exp.size else 1.0)
            if got.shape != exp.shape:
                fails.append(Failure(name, "normalised-shape", "%s call: %s vs %s" % (who, got.shape, exp.shape)))
                continue
            e = float(np.max(np.abs(got - exp))) if exp.size else 0.0
            self._err(name, dt, e / tol if tol else 0.0)
            if e > tol:
                what = "left centred where the statistic is zero, (x-mean)/stat elsewhere" if zero.any() else "(x - mean) / %s(x - mean)" % stat
                fails.append(Failure(name, "normalised-value", "%s call, mode=%s: result differs from %s by %.3g (tolerance %.3g)" % (who, mode, what, e, tol)))
                continue
            # the statements of the property, directly on the result
            axis = None if mode == "all" else 1
            mean = np.atleast_1d(np.mean(got, axis=axis))
            mtol = tol
            if float(np.max(np.abs(mean))) > mtol:
                fails.append(Failure(name, "zero-mean", "%s call, mode=%s: mean of the result %.3g" % (who, mode, float(np.max(np.abs(mean))))))
            if zero.any():
                self.note("zero:skipped-%s" % mode)
                if mode == "per_channel" and (~zero).any():
                    self.note("zero:skipped-some-channels")
            if stat in ("std", "norm", "maxabs"):
                s = ref_stat(stat, got - (np.mean(got) if mode == "all" else np.mean(got, axis=1, keepdims=True)), axis)
                keep = ~zero if mode == "per_channel" else (np.ones_like(zero) if not zero.any() else np.zeros_like(zero))
                if keep.any() and float(np.max(np.abs(s[keep] - 1.0))) > tol:
                    fails.append(Failure(name, "unit-statistic", "%s call, mode=%s: %s of the result is %s" % (who, mode, stat, s.tolist())))
                self.note("unit:%s-%s" % (stat, mode))
        if fails:
            return fails
        # second application of std / norm changes nothing
        if stat in ("std", "norm") and zs_arr == "ok" and zs_img == "ok" and not np.any(ref_full["zero"]) and (ref_dom is None or not np.any(ref_dom["zero"])):
            with np.errstate(all="ignore"):
                again_arr = call_feature(op, r_arr)
                again_img = call_feature(op, r_img)
            cm = max(float(np.max(ref_full["cond"])), float(np.max(ref_dom["cond"])) if ref_dom is not None else 0.0)
            for who, a, b in (("array", again_arr, r_arr), ("image", again_img.pixels, r_img.pixels)):
                tol = max(FLOOR[dt], 1e3 * EPS[dt] * cm) * (1.0 + float(np.max(np.abs(b))))
                e = float(np.max(np.abs(a.astype(np.float64) - b.astype(np.float64))))
                self._err(name + "/again", dt, e / tol)
                if a.shape != b.shape or e > tol:
                    fails.append(Failure(name, "idempotent", "%s call: second application changes the result by %.3g (tolerance %.3g)" % (who, e, tol)))
            self.note("idem:%s-%s" % (stat, mode))
        return fails

    def _err(self, name, dt, ratio):
        # worst observed error as a fraction of the tolerance, in decades (for sizing the tolerance: >= 100x margin)
        if ratio <= 0:
            return
        dec = int(np.ceil(np.log10(ratio)))
        self.note("margin:%s:worst-error-le-1e%d-of-tolerance" % (dt, dec))

    def _check_independent(self, name, img, arr, arr_before, before, r_img, r_arr):
        fails = []
        # array call: the result must not be (a view of) the argument
        tok = flip(r_arr, 1) if r_arr.flags.writeable else None
        if not np.array_equal(arr, arr_before, equal_nan=True):
            # [interp] a result that shares memory with the argument does not modify it: noted, not failed
            self.note("aliasing:array-result-shares-memory-with-argument")
        unflip(r_arr, tok)
        bufs = [(p, b) for p, b in buffers(r_img) if b.size and b.flags.writeable]
        toks = [(b, flip(b, 1)) for p, b in bufs]
        d = obs_diff(before, observe(img))
        bad_arr = not np.array_equal(arr, arr_before, equal_nan=True)
        for b, t in reversed(toks):
            unflip(b, t)
        if d is not None or bad_arr:
            which = []
            for p, b in bufs:
                t = flip(b, 1)
                if obs_diff(before, observe(img)) is not None or not np.array_equal(arr, arr_before, equal_nan=True):
                    which.append(p)
                unflip(b, t)
            self.note("aliasing:image-result-shares-memory-with-input")
        self.note("independent:%d-buffers" % min(len(bufs), 9))
        return fails

    # ------------------------------------------------------------------ reporting
    def vacuity(self, notes, stats):
        need = [
            "size:changed-masked",
            "size:changed-plain",
            "size:same-masked",
            "size:same-plain",
            "lm:scaled",
            "lm:scaled-anisotropic",
            "lm:unchanged",
            "lm:none",
            "mask:unchanged-sparse",
            "mask:unchanged-all-true",
            "mask:resized-all-true",
            "mask:resized-sparse-mixed",
            "zero:refused-all",
            "zero:refused-per_channel",
            "zero:skipped-all",
            "zero:skipped-per_channel",
            "zero:skipped-some-channels",
            "idem:std-all",
            "idem:std-per_channel",
            "idem:norm-all",
            "idem:norm-per_channel",
            "unit:std-all",
            "unit:norm-per_channel",
            "unit:maxabs-per_channel",
            "normalize:masked-domain",
            "daisy-both:refused-daisy-sigmas-radii-mismatch",
            "daisy-badnorm:refused-daisy-unknown-normalisation",
            "igo:refused-not-2d",
            "es:refused-not-2d",
            "normalize-none-bogus-mode:refused-unknown-mode",
        ]
        need += ["form:array-%s" % f for f in ARRAY_FORMS] + ["form:image-readonly-pixels"]
        need += ["reuse:%s-%s" % (w, k) for w in ("first-use", "second-object", "alternate", "refill", "repeat", "after-gradient", "after-igo", "after-es", "after-daisy") for k in ("array", "image")]
        need += ["reuse:alt-data-differs"]
        need += ["param-form:%s" % f for f in ("numpy-scalars", "numpy-small-ints", "tuples", "ndarrays", "int-flags")]
        need += ["tiny-scale:%s-%s-%s" % (dt, mode, who) for dt in ("float32", "float64") for mode in ("all", "per_channel") for who in ("array", "image")]
        need += ["dtype:%s-%s" % (dt, kind) for dt in DTYPE_FORMS for kind in ("plain", "masked")]
        need += ["gradient:refused-uint8-gradient", "daisy:refused-uint8-gradient"]
        out = ["outcome %s never produced" % n for n in need if not notes.get(n)]
        for op in FULL:
            nm = letter_name(op)
            if not any(k.startswith(nm + ":") for k in notes):
                out.append("feature letter %s produced no outcome" % nm)
        for nm in ("daisy", "daisy-sigmas", "daisy-radii", "daisy-both", "user-ndfeature-halve-rows", "user-ndfeature-double-rows"):
            if not notes.get("%s:size-changed" % nm):
                out.append("%s never changed the image size" % nm)
        if self.tier == "thorough" and not (notes.get("level2:masked") and notes.get("level2:plain")):
            out.append("no feature was applied to a feature image")
        return out

    def rule(self):
        return (
            "every feature letter is called on every image letter and on a raw array of the same data; the result "
            "becomes the next state (thorough: a reduced alphabet is applied again to every feature image); each call "
            "is checked for array/image agreement (bitwise), purity and independence, result kind, annotation transfer "
            "and, for normalisers, against a numpy reference"
        )

    def alphabet_sizes(self):
        return {
            "image_letters": len(_img_letters(self.tier)),
            "feature_letters_level1": len(FULL),
            "feature_letters_level2": len(LEVEL2) if self.tier == "thorough" else 0,
            "daisy_letters": len(DAISY_GRID) + len(DAISY_EXTRA),
            "parameter_form_letters": len(PARAM_FORMS),
            "array_forms": list(ARRAY_FORMS) + ["image-readonly-pixels"],
            "dtype_forms": list(DTYPE_FORMS),
            "roots": len(self.roots()),
            "tie_guard": TIE,
            "tolerance_floor": FLOOR,
        }

    def assumptions(self):
        return [
            "images are 12x13 and smaller (2-D) or 4x5x3 (3-D), 1..4 channels, float32/float64; pixel values are seeded, the set of letters is not",
            "features are enabled only above their minimum size (daisy: min side > 2*radius; gradient, igo, es: two samples per axis)",
            "constant payloads are multiples of 1/8 so that the centred data is exactly zero; a statistic that is tiny but not exactly zero (conditioning > 1e-2/(1e3 eps)) is not judged against the value reference",
            "[interp] normalize() on a MaskedImage whose mask is not all true normalises the pixels under the mask: compared with the reference on those pixels, not with normalize(image.pixels)",
            "[interp] output dtype is not compared (daisy returns float64 for float32 input); pixels outside the mask after normalize() on a masked image are not compared",
            "mask pixels whose nearest-neighbour source coordinate is a rounding tie, or on an axis that collapses to one pixel, follow the implementation",
            "states holding non-finite data (es of a constant image) are not expanded; normalize() is not applied to a masked image whose mask has no true pixel",
            "a zero statistic is predicted (refusal / skip demanded) only for constant data that is a multiple of 1/8 or for the always-zero custom scale; constant data with other values is ill-conditioned (either outcome accepted)",
            "argument forms: pixel data as uint8 / int16 / int32 / int64 / bool / float32 / float64 (same integer payload); raw arrays as read-only, Fortran-ordered, strided and negatively strided views, images over a read-only pixel buffer (root states); parameters as numpy scalars, small numpy ints, tuples / ndarrays for lists, 0/1 for flags",
            "forms the unchanged tree itself rejects or mishandles are not letters: python lists / tuples as the pixel argument (AttributeError), daisy sigmas as tuple (TypeError) or ndarray (silently other values), daisy ring_radii with float entries (TypeError), sum_channels channels as tuple (indexes instead of selecting), gaussian sigma as np.float32 (scipy rounds differently), gradient-family features on bool pixels (numpy refuses boolean subtraction); uint8 gradient is the stated TypeError",
            "live-object reuse (root states): one live array / image is called, refilled in place through its pixel buffer and called again, alternated with a second live object, and used by gradient / igo / es / daisy before the feature under test; every result must equal the call on a freshly built object; the other payload is the same data flipped along the first and last axes",
            "low-contrast letters: statistics below the dtype's machine epsilon but far above zero must be divided by, never refused or skipped; values judged when 1e3*eps*cond <= 0.5",
            "depth 2 (thorough) uses a reduced feature alphabet (%d letters) on the second level" % len(LEVEL2),
        ]


def _exact_key(o):
    """hashable key of an observation without rounding (only -0.0 is folded into 0.0)"""
    if isinstance(o, np.ndarray):
        a = (o + 0.0) if o.dtype.kind in "fc" else o
        return ("A", o.shape, str(o.dtype), np.ascontiguousarray(a).tobytes())
    if isinstance(o, dict):
        return ("D",) + tuple((str(k), _exact_key(v)) for k, v in o.items())
    if isinstance(o, (list, tuple)):
        return ("L",) + tuple(_exact_key(v) for v in o)
    if isinstance(o, float):
        return o + 0.0
    return o


def _smallest(ref):
    try:
        return float(np.min(np.abs(ref["native"])))
    except Exception:  # noqa
        return float("nan")


def _maxdiff(a, b):
    try:
        with np.errstate(all="ignore"):
            return float(np.nanmax(np.abs(np.asarray(a, dtype=float) - np.asarray(b, dtype=float))))
    except Exception:  # noqa
        return float("nan")


def _short(exc, res):
    if exc is not None:
        return "%s: %s" % (type(exc).__name__, exc)
    if isinstance(res, np.ndarray):
        return "an array %s, finite: %s" % (res.shape, bool(np.all(np.isfinite(res))))
    return "a %s" % type(res).__name__


CHECK = C18
