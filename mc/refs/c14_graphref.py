"""Set-based reference model of graphs for C14 (plain python / numpy, independent of menpo and scipy.csgraph).

A graph is a vertex count plus a dict {(a, b): weight} of arcs; an undirected graph holds both orientations
of every edge with the same weight.  Every algorithm below is the boring textbook one: white/grey/black
DFS (cycles), union-find (components, Kruskal), Floyd-Warshall (distances), BFS (rooted trees), exhaustive
DFS (simple paths).
"""
import numpy as np

INF = float("inf")


class RefGraph(object):
    def __init__(self, n, directed, arcs, weights_defined=True):
        self.n = int(n)
        self.directed = bool(directed)
        self.w = {}
        for (a, b), w in arcs.items():
            a, b = int(a), int(b)
            assert 0 <= a < n and 0 <= b < n and a != b, (a, b, n)
            self.w[(a, b)] = w
        if not directed:
            for (a, b), w in self.w.items():
                assert self.w.get((b, a)) == w, "undirected reference graph must be symmetric"
        # False when the construction letter does not define the weights (duplicated edge in an edge list)
        self.weights_defined = bool(weights_defined)
        self.out = [[] for _ in range(self.n)]
        self.inn = [[] for _ in range(self.n)]
        for (a, b) in sorted(self.w):
            self.out[a].append(b)
            self.inn[b].append(a)
        self._dist = {}
        self._cycle = None

    # ------------------------------------------------------------------ basic sets
    def key(self):
        return (self.n, self.directed, tuple(sorted((a, b, float(w)) for (a, b), w in self.w.items())))

    def edge_list(self):
        """every arc once (directed) / every undirected edge once as (small, large)."""
        if self.directed:
            return sorted(self.w)
        return sorted((a, b) for (a, b) in self.w if a < b)

    def pairs(self):
        """underlying simple undirected edge set."""
        return sorted(set((min(a, b), max(a, b)) for (a, b) in self.w))

    def isolated(self):
        return [v for v in range(self.n) if not self.out[v] and not self.inn[v]]

    # ------------------------------------------------------------------ cycles (colouring DFS)
    def has_cycle(self):
        if self._cycle is None:
            self._cycle = self._has_cycle()
            if not self.directed:
                # self-check of the model: a simple undirected graph is acyclic iff m = n - components
                assert self._cycle == (len(self.pairs()) != self.n - self.n_components()), "reference cycle tests disagree"
        return self._cycle

    def _has_cycle(self):
        WHITE, GREY, BLACK = 0, 1, 2
        col = [WHITE] * self.n
        for s in range(self.n):
            if col[s] != WHITE:
                continue
            # iterative DFS: stack of (vertex, parent, iterator over out-neighbours)
            col[s] = GREY
            stack = [(s, None, iter(self.out[s]))]
            while stack:
                v, par, it = stack[-1]
                advanced = False
                for y in it:
                    if self.directed:
                        if col[y] == GREY:
                            return True
                        if col[y] == WHITE:
                            col[y] = GREY
                            stack.append((y, v, iter(self.out[y])))
                            advanced = True
                            break
                    else:
                        if y == par:
                            continue  # the tree edge we came along (simple graph: one edge per pair)
                        if col[y] != WHITE:
                            return True
                        col[y] = GREY
                        stack.append((y, v, iter(self.out[y])))
                        advanced = True
                        break
                if not advanced:
                    col[v] = BLACK
                    stack.pop()
        return False

    # ------------------------------------------------------------------ connectivity
    def _uf_components(self):
        par = list(range(self.n))

        def find(x):
            while par[x] != x:
                par[x] = par[par[x]]
                x = par[x]
            return x

        for (a, b) in self.pairs():
            ra, rb = find(a), find(b)
            if ra != rb:
                par[ra] = rb
        return [find(v) for v in range(self.n)]

    def n_components(self):
        """components of the underlying undirected graph."""
        return len(set(self._uf_components()))

    def underlying_is_tree(self):
        return self.n_components() == 1 and len(self.pairs()) == self.n - 1

    def bfs(self, root):
        """(parent, depth) lists following out-arcs from root; None for vertices that are not reached."""
        parent = [None] * self.n
        depth = [None] * self.n
        depth[root] = 0
        queue = [root]
        while queue:
            nxt = []
            for v in queue:
                for y in self.out[v]:
                    if depth[y] is None:
                        depth[y] = depth[v] + 1
                        parent[y] = v
                        nxt.append(y)
            queue = nxt
        return parent, depth

    def is_arborescence(self, root):
        """every vertex is reached from root and there are exactly n - 1 arcs (so each non-root vertex has
        exactly one parent and the root none)."""
        if not self.directed or len(self.w) != self.n - 1:
            return False
        _, depth = self.bfs(root)
        return all(d is not None for d in depth)

    def arborescence_roots(self):
        return [r for r in range(self.n) if self.is_arborescence(r)]

    # ------------------------------------------------------------------ distances / paths
    def dist(self, unweighted=False):
        key = bool(unweighted)
        if key not in self._dist:
            d = np.full((self.n, self.n), INF)
            for (a, b), w in self.w.items():
                d[a, b] = 1.0 if unweighted else float(w)
            for v in range(self.n):
                d[v, v] = 0.0
            for k in range(self.n):
                d = np.minimum(d, d[:, k][:, None] + d[k, :][None, :])
            self._dist[key] = d
        return self._dist[key]

    def route_problem(self, route, s, e):
        """None if `route` is a simple path from s to e along arcs of the graph, else what is wrong."""
        r = [int(v) for v in route]
        if not r:
            return "empty route"
        if r[0] != s or r[-1] != e:
            return "route %r does not go from %d to %d" % (r, s, e)
        if len(set(r)) != len(r):
            return "route %r repeats a vertex" % (r,)
        for a, b in zip(r[:-1], r[1:]):
            if not (0 <= a < self.n and 0 <= b < self.n) or (a, b) not in self.w:
                return "route %r uses (%d, %d) which is not an edge" % (r, a, b)
        return None

    def route_length(self, route, unweighted=False):
        r = [int(v) for v in route]
        return float(sum(1.0 if unweighted else float(self.w[(a, b)]) for a, b in zip(r[:-1], r[1:])))

    def simple_paths(self, s, e):
        out = []

        def rec(path):
            v = path[-1]
            if v == e:
                out.append(tuple(path))
                return
            for y in self.out[v]:
                if y not in path:
                    rec(path + [y])

        rec([s])
        return sorted(out)

    # ------------------------------------------------------------------ masking
    def induced(self, mask):
        """(induced subgraph renumbered in order, kept original indices)."""
        keep = [v for v in range(self.n) if mask[v]]
        ren = {v: i for i, v in enumerate(keep)}
        arcs = {(ren[a], ren[b]): w for (a, b), w in self.w.items() if a in ren and b in ren}
        return RefGraph(len(keep), self.directed, arcs, self.weights_defined), keep

    def tree_masked(self, mask, root):
        """rooted tree: induced subgraph, then only what is still reached from the root.
        (reference graph, kept original indices, new root index)"""
        assert mask[root]
        sub, keep = self.induced(mask)
        r1 = keep.index(root)
        _, depth = sub.bfs(r1)
        mask2 = [d is not None for d in depth]
        sub2, keep2 = sub.induced(mask2)
        return sub2, [keep[i] for i in keep2], keep2.index(r1)

    # ------------------------------------------------------------------ spanning trees
    def kruskal(self):
        """(total weight, number of edges) of a minimum spanning forest of the undirected graph."""
        assert not self.directed
        par = list(range(self.n))

        def find(x):
            while par[x] != x:
                x = par[x]
            return x

        total, cnt = 0.0, 0
        for w, a, b in sorted((float(self.w[(a, b)]), a, b) for (a, b) in self.edge_list()):
            ra, rb = find(a), find(b)
            if ra != rb:
                par[ra] = rb
                total += w
                cnt += 1
        return total, cnt


# ---------------------------------------------------------------------------------------------------------
# enumerations
# ---------------------------------------------------------------------------------------------------------
def und_pairs(n):
    return [(a, b) for a in range(n) for b in range(a + 1, n)]


def dir_pairs(n):
    return [(a, b) for a in range(n) for b in range(n) if a != b]


def prufer_tree(n, code):
    """undirected edges of the labelled tree number `code` (0 <= code < n**(n-2)) on n >= 2 vertices."""
    if n == 2:
        return [(0, 1)]
    seq = []
    for _ in range(n - 2):
        seq.append(code % n)
        code //= n
    degree = [1] * n
    for v in seq:
        degree[v] += 1
    edges = []
    for v in seq:
        leaf = min(u for u in range(n) if degree[u] == 1)
        edges.append((min(leaf, v), max(leaf, v)))
        degree[leaf] -= 1
        degree[v] -= 1
    u, v = [x for x in range(n) if degree[x] == 1]
    edges.append((u, v))
    return sorted(edges)


def orient_from_root(n, und_edges, root):
    """arcs parent -> child of the tree rooted at `root`."""
    nb = [[] for _ in range(n)]
    for a, b in und_edges:
        nb[a].append(b)
        nb[b].append(a)
    arcs, seen, queue = [], {root}, [root]
    while queue:
        v = queue.pop(0)
        for y in sorted(nb[v]):
            if y not in seen:
                seen.add(y)
                arcs.append((v, y))
                queue.append(y)
    assert len(seen) == n
    return arcs
