"""CLI:  python -m mc.runner <Cxx> <quick|thorough> | <Cxx> --replay <file> | --selftest

exit 0 = property held on everything explored (KNOWN-FINDING lines allowed)
exit 1 = at least one `VIOLATION property=<id> replay=<path>` line was printed
exit 2 = harness error (crash, vacuous exploration, nondeterminism) – never means "holds"
"""
import collections
import hashlib
import importlib
import json
import os
import subprocess
import sys
import time
import warnings

VERIF = os.path.dirname(os.path.dirname(os.path.abspath(__file__)))
REPO = os.environ.get("VERIF_REPO", "/repo")

CHECK_IDS = ["C%02d" % i for i in range(1, 21)]


def load_check(cid):
    if cid == "TOY":
        from mc import toy

        return toy.Toy
    mod = importlib.import_module("mc.checks.%s" % cid.lower())
    return mod.CHECK


def load_known():
    p = os.path.join(VERIF, "known_findings.json")
    if not os.path.exists(p):
        return []
    with open(p) as fh:
        return json.load(fh)


def signature(cid, f):
    return "%s/%s/%s" % (cid, f["where"], f["clause"])


def write_replay(cid, tier, seed, rec, sig):
    d = os.path.join(VERIF, "replays")
    os.makedirs(d, exist_ok=True)
    body = {
        "property": cid,
        "check": cid,
        "seed": seed,
        "tier": tier,
        "initial": rec["root"],
        "ops": list(rec["history"]),
        "context": list(rec.get("context", [])),
        "op": rec["op"],
        "signature": sig,
        "failures": rec["failures"],
    }
    h = hashlib.sha1(json.dumps([sig, rec["root"], rec["history"], rec["op"]], sort_keys=True, default=repr).encode()).hexdigest()[:10]
    path = os.path.join(d, "%s-%s.json" % (cid, h))
    with open(path, "w") as fh:
        json.dump(body, fh, indent=1, default=repr)
    return path


def do_replay(cid, path, as_json=False):
    """Re-execute one recorded history without the explorer."""
    from mc import core

    with open(path) as fh:
        rec = json.load(fh)
    factory = load_check(cid)
    check = factory(rec.get("tier", "quick"), int(rec.get("seed", 0)))
    if hasattr(check, "replay_custom"):
        fails = check.replay_custom(rec)
    else:
        root = _tuplify(rec["initial"])
        try:
            st = check.build(root)
        except core.HarnessError:
            raise
        except Exception as e:  # same conversion as the explorer: build runs menpo code too
            import traceback

            out = [core.Failure("build", "unexpected-exception", "%s: %s\n%s" % (type(e).__name__, e, traceback.format_exc()[-1200:])).as_dict()]
            if as_json:
                print("REPLAY-JSON " + json.dumps(out, sort_keys=True))
            else:
                print("REPLAY-FAIL build/unexpected-exception: %s" % out[0]["detail"])
            return 1
        fails = list(check.check_root(st, root)) if rec["op"] is None and not rec["ops"] else []
        for op in [_tuplify(o) for o in rec["ops"]]:
            check.apply(st, op, verify=False)
        for op in [_tuplify(o) for o in rec.get("context", [])]:
            check.apply(st, op, verify=False)
        if rec["op"] is not None:
            try:
                fails = check.apply(st, _tuplify(rec["op"]), verify=True)
            except Exception as e:  # same conversion as the explorer
                import traceback

                fails = [core.Failure(core._opname(_tuplify(rec["op"])), "unexpected-exception", "%s: %s\n%s" % (type(e).__name__, e, traceback.format_exc()[-1200:]))]
    out = [f.as_dict() for f in fails]
    if as_json:
        print("REPLAY-JSON " + json.dumps(out, sort_keys=True))
    else:
        for f in out:
            print("REPLAY-FAIL %s/%s: %s" % (f["where"], f["clause"], f["detail"]))
        if not out:
            print("REPLAY-OK no failure reproduced")
    return 1 if out else 0


def _tuplify(x):
    """JSON turns tuples into lists; specs are compared/hashed as tuples."""
    if isinstance(x, list):
        return tuple(_tuplify(v) for v in x)
    if isinstance(x, dict):
        return {k: _tuplify(v) for k, v in x.items()}
    return x


def fresh_replay(cid, path):
    env = dict(os.environ)
    cmd = [sys.executable, "-m", "mc.runner", cid, "--replay", path, "--json"]
    p = subprocess.run(cmd, cwd=VERIF, env=env, capture_output=True, text=True, timeout=600)
    for line in p.stdout.splitlines():
        if line.startswith("REPLAY-JSON "):
            return line[len("REPLAY-JSON "):]
    return "ERROR rc=%s %s" % (p.returncode, (p.stderr or "")[-500:])


def write_evidence(cid, tier, seed, check, res, violations, known_lines, extra=None):
    notes = dict(sorted(res.notes.items()))
    outcome_kinds = collections.defaultdict(set)
    for k in notes:
        if ":" in k:
            a, b = k.split(":", 1)
            outcome_kinds[a].add(b)
    exhaustive = (not res.capped) and not res.errors and res.depth_completed >= res.depth
    cov = {
        "states": int(res.states),
        "transitions": int(res.transitions),
        "traces_validated_against_impl": int(res.traces),
        "samples": res.samples[:6] or [{"note": "no trace completed"}],
        "exhaustive": bool(exhaustive),
        "roots": int(res.roots),
        "roots_completed": int(res.roots_completed),
        "depth_bound": int(res.depth),
        "depth_completed": int(res.depth_completed),
        "transitions_per_level": {str(k): int(v) for k, v in sorted(res.per_level.items())},
        "merged_duplicates": int(res.merged),
        "self_loops": int(res.selfloops),
        "confluence_checked": int(res.confluence_checked),
        "alphabet": check.alphabet_sizes(),
        "outcomes": notes,
        "distinct_outcomes": {k: len(v) for k, v in sorted(outcome_kinds.items())},
        "rule": check.rule(),
        "caps_hit": ["wall-clock cap"] if res.capped else [],
        "known_findings_seen": known_lines,
    }
    if extra:
        cov.update(extra)
    ev = {
        "property_id": cid,
        "tier": tier,
        "seed": int(seed),
        "level": "model_checking",
        "coverage": cov,
        "assumptions": check.assumptions(),
        "wall_s": round(res.wall, 3),
        "violations": int(violations),
    }
    d = os.path.join(VERIF, "evidence")
    if os.path.realpath(os.environ.get("VERIF_REPO", "/repo")) != os.path.realpath("/repo"):
        # a run against some other tree (a mutant copy, a scratch worktree) must not overwrite the evidence of /repo
        d = os.path.join(VERIF, "replays", "evidence-other-tree")
    os.makedirs(d, exist_ok=True)
    with open(os.path.join(d, "%s.json" % cid), "w") as fh:
        json.dump(ev, fh, indent=1, default=repr, sort_keys=False)
        fh.write("\n")
    return ev


def run(cid, tier, seed):
    from mc import core

    factory = load_check(cid)
    cap = float(os.environ.get("VERIF_CAP_S", "0")) or None
    if hasattr(factory, "run_custom"):
        res, check = factory.run_custom(tier, seed, cap)
    else:
        res, check = core.run_check(factory, tier, seed, cap_s=cap)
    known = [k for k in load_known() if k.get("property") == cid]
    open_ids = {k["id"]: k for k in known if k.get("status") == "open"}
    rc = 0
    if res.errors:
        for e in res.errors[:5]:
            print("HARNESS-ERROR %s" % e)
        rc = 2
    # group failures by signature; the first one found (BFS, simplest-first alphabet) is the shortest
    by_sig = collections.OrderedDict()
    known_seen = collections.OrderedDict()
    for rec in res.failures:
        for f in rec["failures"]:
            if f.get("finding") and f["finding"] in open_ids:
                known_seen.setdefault(f["finding"], (rec, f))
                continue
            sig = signature(cid, f)
            if sig not in by_sig:
                one = dict(rec)
                one["failures"] = [f]
                by_sig[sig] = one
    known_lines = []
    for fid, (rec, f) in known_seen.items():
        line = "KNOWN-FINDING: property=%s %s %s" % (cid, fid, open_ids[fid].get("what", signature(cid, f)))
        known_lines.append(line)
        print(line)
    n_viol = 0
    max_report = int(os.environ.get("VERIF_MAX_REPORT", "12"))
    for sig, rec in list(by_sig.items())[:max_report]:
        path = write_replay(cid, tier, seed, rec, sig)
        verdict = ""
        if os.environ.get("VERIF_NO_FRESH_REPLAY") != "1":
            a = fresh_replay(cid, path)
            b = fresh_replay(cid, path)
            if a != b:
                print("NONDETERMINISM property=%s replay=%s\n first: %s\n second: %s" % (cid, path, a[:300], b[:300]))
                rc = 2
                continue
            if a.startswith("ERROR"):
                print("HARNESS-ERROR replay failed: %s" % a)
                rc = 2
                continue
            if a == "[]":
                verdict = " (note: not reproduced by the isolated history in a fresh process - depends on earlier executions in the exploring worker)"
        f = rec["failures"][0]
        print("VIOLATION property=%s replay=%s" % (cid, path))
        print("  signature=%s%s" % (sig, verdict))
        print("  root=%r history=%r op=%r" % (rec["root"], rec["history"], rec["op"]))
        print("  %s" % f["detail"][:600].replace("\n", " | "))
        n_viol += 1
    if len(by_sig) > max_report:
        print("  ... %d further failing signatures not listed" % (len(by_sig) - max_report))
        n_viol += len(by_sig) - max_report
    vac = []
    if not res.errors:
        vac = check.vacuity(res.notes, res)
        if res.transitions == 0:
            vac.append("no transition executed")
    write_evidence(cid, tier, seed, check, res, n_viol, known_lines, getattr(res, "extra", None))
    print(
        "%s %s seed=%d: roots=%d states=%d transitions=%d traces=%d depth=%d/%d merged=%d selfloops=%d wall=%.1fs violations=%d known=%d%s"
        % (
            cid,
            tier,
            seed,
            res.roots,
            res.states,
            res.transitions,
            res.traces,
            res.depth_completed,
            res.depth,
            res.merged,
            res.selfloops,
            res.wall,
            n_viol,
            len(known_lines),
            " CAPPED" if res.capped else "",
        )
    )
    if n_viol:
        return 1
    if vac and rc == 0:
        for v in vac:
            print("VACUOUS %s" % v)
        return 2
    return rc


def selftest():
    """setup_cmd: menpo importable from the tree, explorer finds the shortest counterexample of a planted bug,
    evidence writer produces schema-valid files."""
    from mc import core, toy

    import menpo  # noqa

    print("menpo imported from", os.path.dirname(menpo.__file__))
    res, check = core.run_check(toy.Toy, "quick", 0, jobs=1)
    assert res.failures, "planted bug not found"
    first = res.failures[0]
    assert len(first["history"]) + 1 == toy.Toy.SHORTEST, "counterexample is not a shortest one: %r" % (first,)
    res2, check2 = core.run_check(toy.ToyGood, "quick", 0, jobs=2)
    assert not res2.failures and res2.states == toy.ToyGood.N_STATES, (res2.failures, res2.states)
    # evidence schema (validated with python3-vt when present)
    import tempfile

    global VERIF
    keep = VERIF
    tmp = tempfile.mkdtemp(prefix="verif-selftest-")
    try:
        VERIF = tmp
        ev = write_evidence("TOY", "quick", 0, check2, res2, 0, [])
        schema = "/root/.vp/EVIDENCE.schema.json"
        vt = "/opt/veriftools/pyvenv/bin/python"
        if os.path.exists(schema) and os.path.exists(vt):
            code = "import json,jsonschema,sys; jsonschema.validate(json.load(open(sys.argv[1])), json.load(open(sys.argv[2])))"
            subprocess.run([vt, "-c", code, os.path.join(tmp, "evidence", "TOY.json"), schema], check=True)
            print("evidence schema: valid")
        else:
            for k in ("property_id", "tier", "seed", "level", "coverage", "wall_s"):
                assert k in ev
    finally:
        VERIF = keep
        import shutil

        shutil.rmtree(tmp, ignore_errors=True)
    print("selftest ok: toy states=%d transitions=%d; planted bug found at depth %d" % (res2.states, res2.transitions, toy.Toy.SHORTEST))
    return 0


def main(argv):
    warnings.simplefilter("ignore")
    if not argv or argv[0] in ("-h", "--help"):
        print(__doc__)
        return 2
    if argv[0] == "--selftest":
        return selftest()
    cid = argv[0].upper()
    if len(argv) >= 3 and argv[1] == "--replay":
        return do_replay(cid, argv[2], as_json="--json" in argv)
    tier = argv[1] if len(argv) > 1 else os.environ.get("VERIF_TIER", "quick")
    if tier not in ("quick", "thorough"):
        print("tier must be quick or thorough")
        return 2
    seed = int(os.environ.get("VERIF_SEED", "0") or 0)
    try:
        return run(cid, tier, seed)
    except Exception:
        import traceback

        traceback.print_exc()
        print("HARNESS-ERROR uncaught exception")
        return 2


if __name__ == "__main__":
    sys.exit(main(sys.argv[1:]))
