"""Bounded exhaustive exploration of menpo's real code against reference models (see /verif/DESIGN.md)."""
