"""Explicit-state explorer over the real implementation.

A *state* is never stored: it is identified by (root spec, history of op specs) and rebuilt by
replaying that history on fresh objects (`Check.build` + `Check.apply(verify=False)`).  A *transition*
calls the real code with one op letter, applies the same letter to the reference model and evaluates
the step oracle.  Search is breadth first with the alphabet ordered simplest-first, states are
deduplicated by `Check.canon`, and a state is merged only after its own step oracle passed.
"""
import collections
import json
import os
import time
import traceback
import zlib


class Failure(object):
    """One oracle disagreement.

    where   : stable location letter (operation / class letter) – no seed dependent numbers
    clause  : stable name of the clause of the property that failed
    detail  : free text, expected vs observed
    finding : id of a known-defect footprint (e.g. 'D11') when – and only when – the check's footprint
              predicate for that defect matched this very failure
    """

    __slots__ = ("where", "clause", "detail", "finding")

    def __init__(self, where, clause, detail="", finding=None):
        self.where = str(where)
        self.clause = str(clause)
        self.detail = str(detail)[:2000]
        self.finding = finding

    def as_dict(self):
        return {"where": self.where, "clause": self.clause, "detail": self.detail, "finding": self.finding}

    def __repr__(self):
        return "Failure(%s/%s: %s%s)" % (
            self.where,
            self.clause,
            self.detail[:200],
            " [%s]" % self.finding if self.finding else "",
        )


class HarnessError(Exception):
    """The harness itself is wrong (never used to mean that the property holds or fails)."""


class Check(object):
    """Interface of a check module (DESIGN.md 2.11b)."""

    id = "C00"
    title = ""
    # queries that leave canon() unchanged keep the live object (self loops); when True a change of
    # canon() caused by an op declared `is_query` is itself a failure
    queries_must_not_mutate = False

    def __init__(self, tier, seed):
        self.tier = tier
        self.seed = seed
        self.notes = collections.Counter()

    # ---- to be provided by each check -------------------------------------------------------
    def depth(self):
        return 1

    def roots(self):
        """list of JSON-able root specs (the initial states / enumerated inputs)."""
        raise NotImplementedError

    def build(self, root):
        """fresh live objects + reference model for a root spec."""
        raise NotImplementedError

    def ops(self, state, level):
        """JSON-able op specs enabled in `state` (level = number of ops already applied)."""
        raise NotImplementedError

    def apply(self, state, op, verify=True):
        """execute op on the live objects and on the model; return a list of Failure."""
        raise NotImplementedError

    def canon(self, state):
        """hashable canonical key of a state (model state + observation + aliasing pattern)."""
        raise NotImplementedError

    def check_root(self, state, root):
        """oracle on an initial state (static identities); list of Failure."""
        return []

    def is_query(self, op):
        return False

    def vacuity(self, notes, stats):
        """list of human-readable reasons why this run would be vacuous."""
        return []

    def assumptions(self):
        return []

    def rule(self):
        return ""

    def alphabet_sizes(self):
        return {}

    # ---- helpers ----------------------------------------------------------------------------
    def note(self, tag, n=1):
        self.notes[tag] += n


def _opname(op):
    if isinstance(op, (tuple, list)) and op:
        return str(op[0])
    return str(op)


def stable_hash(obj):
    return zlib.crc32(repr(obj).encode("utf8", "backslashreplace"))


def _jsonable(x):
    try:
        json.dumps(x)
        return x
    except TypeError:
        return repr(x)


class RootResult(object):
    def __init__(self):
        self.states = 0
        self.transitions = 0
        self.traces = 0
        self.merged = 0
        self.selfloops = 0
        self.confluence_checked = 0
        self.max_level = 0
        self.failures = []  # dicts: root, history, context, op, failures
        self.samples = []
        self.notes = collections.Counter()
        self.error = None
        self.per_level = collections.Counter()
        self.capped = False


def replay_history(check, root, history, verify=False):
    """Rebuild the state reached by `history` (a list of (context_ops, op) pairs is flattened by the caller)."""
    st = check.build(root)
    fails = []
    for op in history:
        f = check.apply(st, op, verify=verify)
        if verify and f:
            fails.extend(f)
    return st, fails


def explore_root(check, root, depth, deadline=None, confluence_every=0, max_fail_per_root=8):
    """Breadth-first exploration from one root.  Returns a RootResult."""
    res = RootResult()
    notes_before = collections.Counter(check.notes)
    try:
        st = check.build(root)
        f0 = check.check_root(st, root)
        res.transitions += 0
        if f0:
            res.failures.append({"root": root, "history": [], "context": [], "op": None, "failures": [f.as_dict() for f in f0]})
        key0 = check.canon(st)
        seen = {key0: ()}
        res.states = 1
        frontier = [()]
        for level in range(depth):
            nxt = []
            for hist in frontier:
                if deadline is not None and time.time() > deadline:
                    res.capped = True
                    break
                if hist:
                    live, _ = replay_history(check, root, hist)
                    key = check.canon(live)
                else:
                    live, key = st, key0  # the very first expansion uses the root object just built
                oplist = check.ops(live, level)
                ctx = []
                pending_query_check = False
                for op in oplist:
                    if live is None:
                        live, _ = replay_history(check, root, hist)
                        ctx = []
                    try:
                        fails = check.apply(live, op, verify=True)
                    except HarnessError:
                        raise
                    except Exception as e:
                        # the real code (or the model) blew up where the check did not expect it
                        fails = [Failure(_opname(op), "unexpected-exception", "%s: %s\n%s" % (type(e).__name__, e, traceback.format_exc()[-1200:]))]
                    res.transitions += 1
                    res.per_level[level + 1] += 1
                    if fails:
                        if len(res.failures) < max_fail_per_root:
                            res.failures.append(
                                {
                                    "root": root,
                                    "history": list(hist),
                                    "context": list(ctx),
                                    "op": op,
                                    "failures": [f.as_dict() for f in fails],
                                }
                            )
                        if not all(f.finding for f in fails):
                            live = None
                            continue
                        # only footprints of recorded defects: keep exploring behind them
                    else:
                        res.traces += 1
                    if not res.samples or len(res.samples[-1]["history"]) <= len(hist):
                        # keep the first trace and the first trace of every greater length
                        res.samples.append({"root": _jsonable(root), "history": [_jsonable(o) for o in hist] + [_jsonable(op)]})
                    if check.is_query(op):
                        ctx.append(op)
                        res.selfloops += 1
                        pending_query_check = True
                        continue
                    k2 = check.canon(live)
                    if k2 == key:
                        ctx.append(op)
                        res.selfloops += 1
                        continue
                    if k2 not in seen:
                        seen[k2] = hist + (op,)
                        res.states += 1
                        nxt.append(hist + (op,))
                    else:
                        res.merged += 1
                        if confluence_every and level + 1 < depth and stable_hash((root, hist, op)) % confluence_every == 0:
                            res.confluence_checked += 1
                            cf = _confluence(check, root, seen[k2], hist + (op,), level + 1)
                            if cf and len(res.failures) < max_fail_per_root:
                                res.failures.append(
                                    {"root": root, "history": list(hist), "context": [], "op": op, "failures": [cf.as_dict()]}
                                )
                    live = None
                if pending_query_check and live is not None and check.queries_must_not_mutate:
                    if check.canon(live) != key and len(res.failures) < max_fail_per_root:
                        res.failures.append(
                            {
                                "root": root,
                                "history": list(hist),
                                "context": list(ctx),
                                "op": None,
                                "failures": [Failure("queries", "state-changed-by-queries", "canonical state differs after read-only queries").as_dict()],
                            }
                        )
            if res.capped:
                break
            res.max_level = level + 1
            frontier = nxt
            if not frontier:
                # nothing new to expand: every deeper level is covered too
                res.max_level = depth
                break
    except HarnessError:
        res.error = "root=%r\n%s" % (root, traceback.format_exc())
    except Exception as e:
        # build / ops / canon run menpo code too: an exception there is reported against the tree
        res.failures.append(
            {
                "root": root,
                "history": [],
                "context": [],
                "op": None,
                "failures": [Failure("build", "unexpected-exception", "%s: %s\n%s" % (type(e).__name__, e, traceback.format_exc()[-1200:])).as_dict()],
            }
        )
    delta = collections.Counter(check.notes)
    delta.subtract(notes_before)
    res.notes = collections.Counter({k: v for k, v in delta.items() if v})
    return res


def _confluence(check, root, hist_a, hist_b, level):
    """Two histories merged into one canonical state must have identical successors: op by op when the
    canonical key keeps positions ('ops'), as a set of successor keys when it is a key up to renaming ('set')."""
    sa, _ = replay_history(check, root, hist_a)
    sb, _ = replay_history(check, root, hist_b)
    ops_a = [o for o in check.ops(sa, level) if not check.is_query(o)]
    ops_b = [o for o in check.ops(sb, level) if not check.is_query(o)]
    mode = getattr(check, "confluence_mode", "ops")
    if mode == "ops" and [repr(o) for o in ops_a] != [repr(o) for o in ops_b]:
        return Failure("confluence", "enabled-ops-differ", "histories %r and %r" % (hist_a, hist_b))

    def succ(hist, op):
        live, _ = replay_history(check, root, hist)
        try:
            check.apply(live, op, verify=False)
        except Exception as e:  # noqa
            return ("raises", type(e).__name__)
        return check.canon(live)

    if mode == "ops":
        for op in ops_a:
            if succ(hist_a, op) != succ(hist_b, op):
                return Failure(
                    "confluence",
                    "successors-differ",
                    "op %r after %r vs after %r gives different observable states" % (op, hist_a, hist_b),
                )
        return None
    set_a = set(succ(hist_a, op) for op in ops_a)
    set_b = set(succ(hist_b, op) for op in ops_b)
    if set_a != set_b:
        return Failure(
            "confluence",
            "successor-sets-differ",
            "histories %r and %r reach the same canonical state but %d successor states are not common" % (hist_a, hist_b, len(set_a ^ set_b)),
        )
    return None


# ---------------------------------------------------------------------------------------------
# parallel driver
# ---------------------------------------------------------------------------------------------
_W = {}


def _worker_init(factory, tier, seed, depth, deadline, confluence_every):
    _W["check"] = factory(tier, seed)
    _W["depth"] = depth
    _W["deadline"] = deadline
    _W["conf"] = confluence_every
    _W["roots"] = _W["check"].roots()


def _worker_run(i):
    check = _W["check"]
    return i, explore_root(check, _W["roots"][i], _W["depth"], _W["deadline"], _W["conf"])


def _worker_run_chunk(idx):
    return [_worker_run(i) for i in idx]


class RunResult(object):
    def __init__(self):
        self.states = 0
        self.transitions = 0
        self.traces = 0
        self.merged = 0
        self.selfloops = 0
        self.confluence_checked = 0
        self.roots = 0
        self.roots_completed = 0
        self.depth = 0
        self.depth_completed = 0
        self.failures = []
        self.samples = []
        self.notes = collections.Counter()
        self.errors = []
        self.capped = False
        self.per_level = collections.Counter()
        self.wall = 0.0


def run_check(factory, tier, seed, jobs=None, cap_s=None):
    """Explore every root of a check with `jobs` forked workers; merge in root order."""
    import multiprocessing as mp

    t0 = time.time()
    check = factory(tier, seed)
    roots = check.roots()
    depth = check.depth()
    jobs = jobs or int(os.environ.get("VERIF_JOBS", "0")) or min(16, os.cpu_count() or 1)
    deadline = (t0 + cap_s) if cap_s else None
    conf = int(os.environ.get("VERIF_CONFLUENCE", "0")) or (7 if tier == "thorough" else 0)
    out = RunResult()
    out.roots = len(roots)
    out.depth = depth
    results = [None] * len(roots)
    if jobs <= 1 or len(roots) <= 1:
        _worker_init(factory, tier, seed, depth, deadline, conf)
        for i in range(len(roots)):
            results[i] = _worker_run(i)[1]
    else:
        # a ProcessPoolExecutor (not mp.Pool): if the code under test kills a worker outright (heap corruption,
        # a segfault in an extension module) the pool is reported broken instead of waiting for ever
        from concurrent.futures import ProcessPoolExecutor, as_completed
        from concurrent.futures.process import BrokenProcessPool

        ctx = mp.get_context("fork")
        chunk = max(1, len(roots) // (jobs * 8))
        chunks = [list(range(a, min(a + chunk, len(roots)))) for a in range(0, len(roots), chunk)]
        ex = ProcessPoolExecutor(jobs, mp_context=ctx, initializer=_worker_init, initargs=(factory, tier, seed, depth, deadline, conf))
        try:
            futs = {ex.submit(_worker_run_chunk, c): c for c in chunks}
            try:
                for f in as_completed(futs):
                    for i, r in f.result():
                        results[i] = r
            except BrokenProcessPool:
                lost = [i for i in range(len(roots)) if results[i] is None]
                raise HarnessError(
                    "a worker process died while exploring (killed by a signal: memory corruption or a crash in an "
                    "extension module); %d roots unfinished, first ones: %r" % (len(lost), [roots[i] for i in lost[:4]])
                )
        finally:
            ex.shutdown(wait=False, cancel_futures=True)
    min_level = depth
    for r in results:
        out.states += r.states
        out.transitions += r.transitions
        out.traces += r.traces
        out.merged += r.merged
        out.selfloops += r.selfloops
        out.confluence_checked += r.confluence_checked
        out.notes.update(r.notes)
        out.per_level.update(r.per_level)
        out.failures.extend(r.failures)
        if r.error:
            out.errors.append(r.error)
        if r.capped:
            out.capped = True
        else:
            out.roots_completed += 1
        min_level = min(min_level, r.max_level)
        if len(out.samples) < 6 and r.samples:
            out.samples.append(r.samples[-1])
    out.depth_completed = min_level if roots else 0
    out.wall = time.time() - t0
    return out, check
