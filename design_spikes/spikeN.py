import numpy as np, warnings, itertools, collections
warnings.simplefilter('ignore')
from menpo.shape import *
from scipy.sparse import csr_matrix
issues=collections.Counter()
rs=np.random.RandomState(0)
def kruskal(n,W):
    es=sorted((W[a,b],a,b) for a in range(n) for b in range(a+1,n) if W[a,b]>0)
    par=list(range(n))
    def f(x):
        while par[x]!=x: x=par[x]
        return x
    tot=0;cnt=0
    for w,a,b in es:
        if f(a)!=f(b): par[f(a)]=f(b); tot+=w; cnt+=1
    return tot,cnt
for n in range(2,6):
    pairs=list(itertools.combinations(range(n),2)); P=rs.rand(n,2)
    for m in range(2**len(pairs)):
        E=[p for i,p in enumerate(pairs) if m>>i&1]
        W=np.zeros((n,n))
        for (a,b) in E: W[a,b]=W[b,a]=1+rs.randint(1,20)
        g=PointUndirectedGraph(P,csr_matrix(W))
        es=set(map(tuple,g.edges.tolist()))
        if es!=set(E): issues['edges']+=1
        # FW
        D=np.where(W>0,W,np.inf); np.fill_diagonal(D,0)
        for k in range(n): D=np.minimum(D,D[:,[k]]+D[[k],:])
        for s,e in itertools.product(range(n),range(n)):
            if s==e: continue
            path,cost=g.find_shortest_path(s,e)
            if np.isinf(D[s,e]):
                if path!=[] or not np.isinf(cost): issues['unreach']+=1
            else:
                pc=sum(W[path[i],path[i+1]] for i in range(len(path)-1))
                if path[0]!=s or path[-1]!=e or any(W[path[i],path[i+1]]==0 for i in range(len(path)-1)): issues['invalid route']+=1
                elif abs(pc-D[s,e])>1e-9: issues['route not shortest']+=1
                if abs(cost-D[s,e])>1e-9: issues['cost wrong']+=1
            p2=g.find_path(s,e)
            if (p2==[])!=np.isinf(D[s,e]): issues['find_path reach']+=1
        # masks
        for mk in range(1,2**n-1):
            mask=np.array([(mk>>i)&1 for i in range(n)],bool)
            try: h=g.from_mask(mask)
            except Exception as ex: issues[('from_mask exc',type(ex).__name__)]+=1; continue
            keep=np.nonzero(mask)[0]; ren={v:i for i,v in enumerate(keep)}
            expE=set((ren[a],ren[b]) for a,b in E if mask[a] and mask[b])
            if set(map(tuple,h.edges.tolist()))!=expE or not np.array_equal(h.points,P[mask]): issues['mask induced']+=1
        # mst
        if not g.has_isolated_vertices():
            tot,cnt=kruskal(n,W)
            if cnt==n-1:
                for r in range(n):
                    t=g.minimum_spanning_tree(r)
                    A=t.adjacency_matrix.toarray()
                    if abs(A.sum()-tot)>1e-9 or t.root_vertex!=r or t.n_edges!=n-1: issues['mst']+=1
                    if any(W[a,b]==0 for a,b in t.edges.tolist()): issues['mst edge not in graph']+=1
            else:
                try:
                    t=g.minimum_spanning_tree(0); issues[('mst on disconnected returned', t.n_edges, n)]+=1
                except Exception as ex: issues[('mst disconnected exc',type(ex).__name__)]+=1
for k,v in issues.items(): print(k,v)
print('done')
