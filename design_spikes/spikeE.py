import numpy as np, warnings, tempfile, os
warnings.simplefilter('ignore')
from collections import OrderedDict
from pathlib import Path
import menpo.io as mio
from menpo.shape import *
from menpo.landmark import LandmarkManager
d=Path(tempfile.mkdtemp())
P=np.array([[1.5,2.25],[np.nan,np.nan],[3.1,0.1],[0.3333333333333333,7.0]])
l=LabelledPointUndirectedGraph.init_from_indices_mapping(P,np.array([[0,2],[2,3],[0,3]]),OrderedDict([('zeta',[0,1]),('βeta',[1,2,3]),('alpha',[0,3])]))
lm=LandmarkManager(); lm['grp.one']=l; lm['ünï']=PointCloud(P[[0,2,3]]); lm['a']=PointDirectedGraph.init_from_edges(P[[0,2,3]],np.array([[0,1],[2,1]]))
mio.export_landmark_file(lm, d/'x.y.ljson')
back=mio.import_landmark_file(d/'x.y.ljson')
print(list(back.keys()))
b=back['grp.one']; print(type(b).__name__, b.labels, np.array_equal(b.points,P,equal_nan=True), b.edges.tolist(), [b._labels_to_masks[k].nonzero()[0].tolist() for k in b.labels])
print(type(back['ünï']).__name__, back['ünï'].n_edges, type(back['a']).__name__, back['a'].edges.tolist())
mio.export_landmark_file(PointCloud(P[[0,2,3]]), d/'p.pts'); print(np.abs(mio.import_landmark_file(d/'p.pts')['PTS'].points-P[[0,2,3]]).max())
try: mio.export_landmark_file(PointCloud(P[[0,2,3]]), str(d/'p.pts'))
except Exception as e: print(type(e).__name__)
mio.export_pickle(lm, d/'a.pkl.gz'); r=mio.import_pickle(d/'a.pkl.gz'); print(type(r).__name__, list(r.keys()))
from menpo.image import Image
im=Image(np.linspace(0,1,12).reshape(1,3,4))
try: mio.export_image(im,d/'i.png'); print('img ok')
except Exception as e: print('img',type(e).__name__, str(e)[:60]); print('file left behind?', (d/'i.png').exists(), (d/'i.png').stat().st_size if (d/'i.png').exists() else None)
import shutil; shutil.rmtree(d)
