import numpy as np, warnings, itertools, time
warnings.simplefilter('ignore')
from menpo.model import PCAVectorModel
def data(n,d,seed):
    rs=np.random.RandomState(seed); r=min(n,d)
    U=np.linalg.qr(rs.randn(n,r))[0]; V=np.linalg.qr(rs.randn(d,r))[0]
    s=np.array([5,3,2,1.2,.7,.4,.25,.15])[:r]
    return U@np.diag(s)@V.T*3+rs.randn(d)
issues=set()
for seed in range(3):
  for (n,d) in [(3,5),(4,4),(5,3),(6,2),(2,6),(8,3)]:
    for centre in (True,False):
        X=data(n,d,seed)
        m=PCAVectorModel(X.copy(),centre=centre)
        C=m.components; l=m.eigenvalues
        mean=X.mean(0) if centre else np.zeros(d)
        Xc=X-mean
        e1=np.abs(C@C.T-np.eye(len(C))).max()
        var=(Xc@C.T).var(axis=0,ddof=1) if centre else ((Xc@C.T)**2).sum(0)/(n-1)
        e2=np.abs(var-l).max()/l[0]
        e3=np.abs(m.mean()-mean).max()
        rec=np.array([m.reconstruct(x) for x in X]); e4=np.abs(rec-X).max()
        desc=np.all(np.diff(l)<0) and np.all(l>0)
        w=np.arange(1,len(l)+1)*0.5; e5=np.abs(m.project(m.instance(w))-w).max()
        x=np.random.RandomState(9).randn(d); r1=m.reconstruct(x); e6=np.abs(m.reconstruct(r1)-r1).max(); e7=np.abs(C@(x-r1- (0 if True else 0))).max() if False else np.abs(C@m.project_out(x).ravel()).max()
        print((n,d,centre),'ncomp',m.n_components,'orth %.1e var %.1e mean %.1e rec %.1e desc %s proj %.1e idem %.1e pout %.1e'%(e1,e2,e3,e4,desc,e5,e6,e7)) if seed==0 else None
        full=m._eigenvalues.copy(); tot=m.original_variance()
        # bookkeeping BFS
        K=m.n_components
        def fresh(kept,active):
            f=PCAVectorModel(X.copy(),centre=centre,max_n_components=kept); f.n_active_components=int(active); return f
        ops=[('act',k) for k in range(0,K+2)]+[('actf',f) for f in (0.5,0.9,0.99,1.0)]+[('trim',k) for k in range(1,K+1)]+[('trim',None)]
        for seq in itertools.product(ops,repeat=2):
            mm=PCAVectorModel(X.copy(),centre=centre); kept=K; act=K
            for (o,a) in seq:
                try:
                    if o=='act': mm.n_active_components=a
                    elif o=='actf': mm.n_active_components=a
                    else: mm.trim_components(a)
                    err=None
                except ValueError as e: err='VE'
                # model
                if o=='act':
                    if a<1: exp_err=True
                    else: exp_err=False; act=min(a,kept)
                elif o=='actf':
                    cum=np.cumsum(full[:kept])/tot
                    if not (0<a<=cum[-1]): exp_err=True
                    else: exp_err=False; act=int(np.sum(cum<a)+1)
                else:
                    if a is None: exp_err=False; kept=act
                    elif a<1: exp_err=True
                    else:
                        exp_err=False; act=min(a,kept); kept=act
                if (err is not None)!=exp_err: issues.add(('err mismatch',o,a,err,exp_err)); break
                if mm.n_components!=kept or mm.n_active_components!=act: issues.add(('count',seq,mm.n_components,kept,mm.n_active_components,act)); break
                if abs(mm.original_variance()-tot)>1e-9*tot: issues.add(('origvar',seq))
                if not np.allclose(mm.eigenvalues,full[:act]): issues.add(('eig',seq))
                disc=full[act:]
                if abs(mm.variance()+disc.sum()-tot)>1e-9*tot: issues.add(('kept+disc',seq))
                f=fresh(kept,act)
                if not (np.allclose(f.components,mm.components) and np.allclose(f._trimmed_eigenvalues.sum(),mm._trimmed_eigenvalues.sum()) and np.isclose(f.noise_variance(),mm.noise_variance())): issues.add(('fresh',seq))
print(len(issues)); 
for i in list(issues)[:10]: print(i)
