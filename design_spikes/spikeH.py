import numpy as np, warnings
warnings.simplefilter('ignore')
from menpo.image import *
from menpo.shape import PointCloud
import menpo.feature as F
from functools import partial
rs=np.random.RandomState(0)
feats={'gradient':F.gradient,'gauss':partial(F.gaussian_filter,sigma=1.0),'igo':F.igo,'digo':F.double_igo,'es':F.es,'noop':F.no_op,
 'daisy1':partial(F.daisy,step=1,radius=2,rings=1,histograms=2,orientations=4),'daisy2':partial(F.daisy,step=2,radius=3,rings=2,histograms=2,orientations=4),
 'nstd_all':F.normalize_std,'nstd_pc':partial(F.normalize_std,mode='per_channel'),'nnorm_all':F.normalize_norm,'nnorm_pc':partial(F.normalize_norm,mode='per_channel'),'nvar':F.normalize_var}
for C in (1,3):
  for kind in ('img','masked'):
    for dt in (np.float64,np.float32):
        px=rs.rand(C,12,13).astype(dt)
        im=Image(px.copy()) if kind=='img' else MaskedImage(px.copy(),mask=rs.rand(12,13)>.3)
        im.landmarks['a']=PointCloud(np.array([[2.,3],[5.5,7.25],[10,11]]))
        for n,f in feats.items():
            msgs=[]
            before=im.pixels.copy(); lb=im.landmarks['a'].points.copy()
            try:
                r=f(im); a=f(px.copy())
            except Exception as e:
                print(C,kind,dt.__name__,n,'EXC',type(e).__name__,str(e)[:80]); continue
            if not np.array_equal(r.pixels,a,equal_nan=True): msgs.append('array!=image maxdiff %.2e'%np.nanmax(np.abs(r.pixels-a)))
            if not np.array_equal(before,im.pixels): msgs.append('input mutated')
            if (kind=='masked')!=isinstance(r,MaskedImage): msgs.append('kind '+type(r).__name__)
            if not r.has_landmarks: msgs.append('no landmarks')
            else:
                sf=np.array(r.shape)/np.array(im.shape)
                if not np.allclose(r.landmarks['a'].points, lb*sf): msgs.append('landmarks wrong')
            if kind=='masked' and r.mask.shape!=r.shape: msgs.append('mask shape')
            if r.pixels.dtype!=dt and n not in(): msgs.append('dtype %s'%r.pixels.dtype)
            if msgs: print(C,kind,dt.__name__,n,r.shape,msgs)
print('done')
