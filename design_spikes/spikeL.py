import numpy as np, warnings, itertools, collections
warnings.simplefilter('ignore')
from menpo.image import *
from menpo.shape import PointCloud
S=(5,6)
px=np.arange(2*5*6).reshape(2,5,6).astype(np.uint8)
im=Image(px.copy()); im.landmarks['a']=PointCloud(np.array([[1.5,2.5],[3,4.]]))
mins=[-2,-0.5,0,0.4,1,2.7]
issues=collections.Counter(); n=0
for m0,m1 in itertools.product(mins,mins):
  for M0 in [2,3.2,S[0]-1,S[0],S[0]+.5,S[0]+3]:
    for M1 in [2,3.2,S[1]-1,S[1],S[1]+.5,S[1]+3]:
      if not (M0>m0 and M1>m1): continue
      for con in (True,False):
        n+=1
        lo=np.floor([m0,m1]).astype(int); hi=np.ceil([M0,M1]).astype(int)
        inside=np.all(lo>=0) and np.all(hi<=np.array(S))
        clo=np.maximum(lo,0); chi=np.minimum(hi,S)
        try:
            r=im.crop(np.array([m0,m1]),np.array([M0,M1]),constrain_to_boundary=con); err=None
        except ImageBoundaryError: err='IBE'
        except Exception as e: err=type(e).__name__
        if inside or con:
            if np.any(chi<=clo):
                issues[('empty-intersection',err, None if err else r.shape)]+=1; continue
            if err: issues[('unexpected err',err,inside,con)]+=1; continue
            exp=px[:,clo[0]:chi[0],clo[1]:chi[1]]
            if r.pixels.shape!=exp.shape or not np.array_equal(r.pixels,exp) or r.pixels.dtype!=px.dtype: issues[('pixels',inside,con)]+=1
            if not np.allclose(r.landmarks['a'].points, im.landmarks['a'].points-clo): issues[('lm',)]+=1
        else:
            if err!='IBE': issues[('not refused',err, tuple(lo<0), tuple(hi>np.array(S)))]+=1
print(n); 
for k,v in issues.items(): print(k,v)
# patches
for C in (1,2,3,5):
    p=np.arange(C*7*8).reshape(C,7,8).astype(float)+1
    I=Image(p)
    cents=np.array([[i,j] for i in range(-2,9) for j in range(-2,10)],dtype=float)
    for ps in [(1,1),(2,2),(3,3),(4,2),(3,5),(2,3)]:
        for offs in (None,np.array([[0,0]]),np.array([[0,0],[1,-1],[-2,3]])):
            a=I.extract_patches(PointCloud(cents),patch_shape=ps,sample_offsets=offs)
            no=1 if offs is None else len(offs)
            if a.shape!=(len(cents),no,C,ps[0],ps[1]): print('shape',C,ps,a.shape)
            # reference
            ref=np.zeros_like(a); 
            O=np.zeros((1,2)) if offs is None else offs
            for ci,c in enumerate(cents):
                for oi,o in enumerate(O):
                    lo0=int(np.round(c[0]+o[0]+(ps[0]%2)/2-ps[0]/2)); lo1=int(np.round(c[1]+o[1]+(ps[1]%2)/2-ps[1]/2))
                    for i in range(ps[0]):
                        for j in range(ps[1]):
                            y,x=lo0+i,lo1+j
                            if 0<=y<7 and 0<=x<8: ref[ci,oi,:,i,j]=p[:,y,x]
            if not np.array_equal(a,ref): print('slice!=ref',C,ps,None if offs is None else len(offs),(a!=ref).sum())
            try:
                b=I.extract_patches(PointCloud(cents),patch_shape=ps,sample_offsets=offs,order=1,mode='constant') if False else __import__('menpo.image.patches',fromlist=['x']).extract_patches_by_sampling(p,cents,ps,offsets=offs,order=0,mode='constant')
                if not np.array_equal(b,ref): print('sampling!=ref',C,ps,(b!=ref).sum())
            except Exception as e: print('sampling EXC',C,ps,type(e).__name__) if ps==(1,1) and offs is None else None
print('done')
