import numpy as np, warnings, itertools
warnings.simplefilter('ignore')
from menpo.shape import *
g=DirectedGraph.init_from_edges(np.array([[0,1],[0,2],[1,2]]),4)
print('D22 is_tree', g.is_tree(), 'has_cycles', g.has_cycles())
g2=DirectedGraph.init_from_edges(np.array([[0,2],[1,2]]),3); print('polytree 0->2<-1 is_tree', g2.is_tree())
# exhaustive has_cycles check on all undirected graphs n<=5 & digraphs n<=4
def ref_cycle_und(n,E):
    parent=list(range(n))
    def f(x):
        while parent[x]!=x: x=parent[x]
        return x
    for a,b in E:
        ra,rb=f(a),f(b)
        if ra==rb: return True
        parent[ra]=rb
    return False
def ref_cycle_dir(n,E):
    adj={i:[] for i in range(n)}
    for a,b in E: adj[a].append(b)
    col=[0]*n
    def dfs(u):
        col[u]=1
        for v in adj[u]:
            if col[v]==1: return True
            if col[v]==0 and dfs(v): return True
        col[u]=2; return False
    return any(col[u]==0 and dfs(u) for u in range(n))
bad=0;cnt=0
for n in range(1,6):
    pairs=list(itertools.combinations(range(n),2))
    for m in range(2**len(pairs)):
        E=[p for i,p in enumerate(pairs) if m>>i&1]
        g=UndirectedGraph.init_from_edges(np.array(E) if E else [],n); cnt+=1
        if g.has_cycles()!=ref_cycle_und(n,E): bad+=1; print('UND mismatch',n,E)
        ist=(not ref_cycle_und(n,E)) and len(E)==n-1
        if g.is_tree()!=ist: print('UND is_tree mismatch',n,E)
print('und',cnt,bad)
bad=0;cnt=0
for n in range(1,5):
    pairs=[(a,b) for a in range(n) for b in range(n) if a!=b]
    for m in range(2**len(pairs)):
        E=[p for i,p in enumerate(pairs) if m>>i&1]
        g=DirectedGraph.init_from_edges(np.array(E) if E else [],n); cnt+=1
        if g.has_cycles()!=ref_cycle_dir(n,E): bad+=1; 
        if bad and bad<5 and g.has_cycles()!=ref_cycle_dir(n,E): print('DIR mismatch',n,E,g.has_cycles())
print('dir',cnt,bad)
# D13 search: exhaustive trilists on 5 vertices up to 4 tris
pts=np.random.RandomState(0).rand(5,3)
tris=list(itertools.combinations(range(5),3)); bad=0;cnt=0;first=None;exc=0
for k in range(1,5):
    for combo in itertools.combinations(tris,k):
        tl=np.array(combo); m=TriMesh(pts,tl)
        from collections import Counter
        c=Counter()
        for t in combo:
            for e in ((t[0],t[1]),(t[1],t[2]),(t[0],t[2])): c[tuple(sorted(e))]+=1
        ref=np.array([any(c[tuple(sorted(e))]==1 for e in ((t[0],t[1]),(t[1],t[2]),(t[0],t[2]))) for t in combo])
        cnt+=1
        try:
            got=m.boundary_tri_index()
            if not np.array_equal(got,ref):
                bad+=1
                if first is None: first=(combo,got,ref)
        except Exception as e: exc+=1
print('boundary',cnt,'bad',bad,'exc',exc,first)
g=PointUndirectedGraph.init_from_edges(np.random.rand(3,2),np.array([[0,1],[1,2]]))
print('D23', g.find_path(1,1), g.find_shortest_path(1,1))
