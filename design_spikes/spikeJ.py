import numpy as np, warnings, itertools, time, collections
warnings.simplefilter('ignore')
from menpo.base import LazyList
LOG=[]
def base(i):
    def f():
        LOG.append(('base',i)); return ('base',i)
    return f
def F(name):
    def f(x):
        LOG.append(('f',name)); return (name,x)
    f.__name__=name
    return f
fa,fb=F('fa'),F('fb')
def ev(expr):  # model evaluation -> (value, log)
    if expr[0]=='base': return expr,[expr]
    if expr[0]=='const': return expr[1],[]
    v,l=ev(expr[2]); return (expr[1],v), l+[('f',expr[1])]
# state: list of (lazylist, model list); explore single-list programs plus '+' with base lists
bases={n:([base(i) for i in range(n)],[('base',i) for i in range(n)]) for n in range(0,4)}
slices=[slice(a,b,c) for a in (None,-2,0,1,3) for b in (None,-1,0,2,4) for c in (None,1,2,-1)]
idxs=[[0],[1,0],[-1,-1],np.array([0,2]),(1,)]
def ops(model_len):
    o=[('map',fa),('mapl',None),('copy',None)]
    o+=[('slice',s) for s in slices]
    o+=[('idx',i) for i in idxs]
    o+=[('repeat',n) for n in (0,1,2)]
    o+=[('addl',2),('addp',None),('radd',1)]
    return o
def apply(ll,m,op):
    k,a=op
    if k=='map': return ll.map(a),[('f',a.__name__,e) for e in m]
    if k=='mapl':
        fs=[fa if i%2==0 else fb for i in range(len(m))]
        return ll.map(fs),[('f',f.__name__,e) for f,e in zip(fs,m)]
    if k=='copy': return ll.copy(),list(m)
    if k=='slice': return ll[a],m[a]
    if k=='idx': return ll[a],[m[i] for i in a]
    if k=='repeat': return ll.repeat(a),[e for e in m for _ in range(a)]
    if k=='addl': return ll+LazyList(bases[a][0]), m+bases[a][1]
    if k=='addp': return ll+['p','q'], m+[('const','p'),('const','q')]
    if k=='radd': return LazyList(bases[a][0])+ll, bases[a][1]+m
def check(ll,m,hist):
    assert len(ll)==len(m),(hist,len(ll),len(m))
    for i in range(-len(m),len(m)):
        del LOG[:]
        v=ll[i]; ev_v,ev_l=ev(m[i])
        assert v==ev_v and LOG==ev_l,(hist,i,v,ev_v,LOG,ev_l)
t0=time.time()
seen=set(); frontier=collections.deque(); trans=0; errs=collections.Counter()
for n,(cs,m) in bases.items():
    frontier.append(((('base',n),),)); 
def build(hist):
    n=hist[0][1]; ll=LazyList(list(bases[n][0])); m=list(bases[n][1])
    for op in hist[1:]:
        ll,m=apply(ll,m,op)
    return ll,m
frontier=collections.deque([ (('base',n),) for n in bases])
depthmax=3
while frontier:
    hist=frontier.popleft()
    ll,m=build(hist)
    key=tuple(m)
    if key in seen: continue
    seen.add(key)
    if len(hist)-1>=depthmax: continue
    for op in ops(len(m)):
        del LOG[:]
        try:
            ll2,m2=apply(ll,m,op)
        except IndexError: 
            errs['IndexError']+=1; continue
        except Exception as e:
            errs[type(e).__name__]+=1; continue
        trans+=1
        assert LOG==[], (hist,op,'evaluated during construction')
        if len(m2)>8: continue
        check(ll2,m2,hist+(op,))
        check(ll,m,hist+(op,'receiver'))
        frontier.append(hist+(op,))
print('states',len(seen),'transitions',trans,errs,time.time()-t0)
