import numpy as np, warnings, itertools
warnings.simplefilter('ignore')
from collections import OrderedDict
import scipy.sparse as sp
from menpo.shape import *
from menpo.image import *
from menpo.transform import *
from menpo.transform.homogeneous import *
from menpo.landmark import LandmarkManager
from menpo.model import PCAVectorModel, PCAModel, LinearVectorModel, MeanLinearVectorModel
from menpo.base import LazyList
def buffers(o, path='', seen=None, out=None):
    if seen is None: seen=set(); out=[]
    if id(o) in seen: return out
    seen.add(id(o))
    if isinstance(o,np.ndarray): out.append((path,o)); return out
    if sp.issparse(o):
        for a in ('data','indices','indptr'): out.append((path+'.'+a,getattr(o,a)))
        return out
    if isinstance(o,dict):
        for k,v in o.items(): buffers(v,path+'[%r]'%k,seen,out)
        return out
    if isinstance(o,(list,tuple)):
        for i,v in enumerate(o): buffers(v,path+'[%d]'%i,seen,out)
        return out
    if hasattr(o,'__dict__'):
        for k,v in vars(o).items(): buffers(v,path+'.'+k,seen,out)
    return out
rs=np.random.RandomState(0)
P=rs.rand(5,2)*5; tl=np.array([[0,1,2],[1,2,3],[2,3,4]])
def lms(o):
    o.landmarks['g1']=PointCloud(rs.rand(3,o.n_dims)); o.landmarks['g2']=LabelledPointUndirectedGraph.init_with_all_label(rs.rand(3,o.n_dims),np.zeros((3,3))); return o
objs=OrderedDict()
objs['pc']=lms(PointCloud(P)); objs['tm']=lms(TriMesh(P,tl)); objs['ctm']=lms(ColouredTriMesh(P,tl,rs.rand(5,3)))
objs['ttm']=lms(TexturedTriMesh(P,rs.rand(5,2),Image(rs.rand(1,4,4)),tl))
objs['pug']=lms(PointUndirectedGraph.init_from_edges(P,np.array([[0,1],[1,2],[3,4]])))
objs['pdg']=lms(PointDirectedGraph.init_from_edges(P,np.array([[0,1],[1,2],[3,4]])))
objs['pt']=lms(PointTree.init_from_edges(P,np.array([[0,1],[0,2],[1,3],[1,4]]),0))
objs['lpug']=lms(LabelledPointUndirectedGraph.init_from_indices_mapping(P,np.array([[0,1],[1,2],[3,4]]),OrderedDict([('a',[0,1,2]),('b',[2,3,4])])))
objs['img']=lms(Image(rs.rand(2,4,5))); objs['mimg']=lms(MaskedImage(rs.rand(2,4,5),mask=rs.rand(4,5)>.4)); objs['bimg']=lms(BooleanImage(rs.rand(4,5)>.4))
objs['lm']=objs['pc'].landmarks
src=PointCloud(P); tgt=PointCloud(P*1.2+rs.rand(5,2))
objs['aff']=Affine(np.array([[1,.2,3],[.1,2,1],[0,0,1.]])); objs['rot']=Rotation.init_from_2d_ccw_angle(30); objs['us']=UniformScale(2,2)
objs['alaff']=AlignmentAffine(src,tgt); objs['alsim']=AlignmentSimilarity(src,tgt); objs['tps']=ThinPlateSplines(src,tgt); objs['pwa']=PiecewiseAffine(src,tgt)
objs['chain']=TransformChain([objs['aff'].copy(),objs['rot'].copy()])
X=rs.randn(6,4); objs['pcav']=PCAVectorModel(X.copy()); objs['pcam']=PCAModel([PointCloud(rs.rand(3,2)) for _ in range(5)])
objs['lin']=LinearVectorModel(rs.rand(2,4)); objs['mlin']=MeanLinearVectorModel(rs.rand(2,4),rs.rand(4))
for name,o in objs.items():
    c=o.copy()
    bo=buffers(o); bc=buffers(c)
    shared=[]
    for (po,a) in bo:
        for (pc_,b) in bc:
            if a.size and b.size and np.shares_memory(a,b): shared.append((po,pc_))
    print(name, len(bo), len(bc), 'SHARED:' ,shared[:6])
