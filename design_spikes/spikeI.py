import numpy as np, warnings
warnings.simplefilter('ignore')
exec(open('/verif/design_spikes/spike1.py').read().split("shape=(7,9); C=3")[0])
from menpo.transform import ThinPlateSplines, PiecewiseAffine, Similarity, NonUniformScale
def run(im, ops, tag):
    shape=im.shape; C=im.n_channels
    lm0={g:im.landmarks[g].points.copy() for g in im.landmarks}
    for name,f in ops:
        try: im2,T=f(im)
        except Exception as e: print(tag,name,'EXC',type(e).__name__,str(e)[:90]); continue
        msgs=[]
        if type(im2) is not type(im): msgs.append('class '+type(im2).__name__)
        P=np.indices(im2.shape).reshape(len(im2.shape),-1).T.astype(float)
        S=T.apply(P)
        inside=np.all((S>=0)&(S<=np.array(shape)-1),axis=1)
        if isinstance(im,BooleanImage):
            near=np.abs(S-np.round(S)); ok=inside&np.all(np.abs(near-0.5)>0.05,axis=1)
            idx=np.round(S[ok]).astype(int)
            exp=im.pixels[0][tuple(idx.T)]; got=im2.pixels.reshape(1,-1)[0,ok]
            if not np.array_equal(exp,got): msgs.append('bool pixels mismatch %d/%d'%((exp!=got).sum(),ok.sum()))
        else:
            got=im2.pixels.reshape(C,-1)[:,inside]; exp=rampf(shape,C,S[inside])
            if inside.any() and np.abs(got-exp).max()>1e-9: msgs.append('pix %.2e'%np.abs(got-exp).max())
        if isinstance(im,MaskedImage):
            near=np.abs(S-np.round(S)); ok=inside&np.all(np.abs(near-0.5)>0.05,axis=1)
            idx=np.round(S[ok]).astype(int)
            exp=im.mask.mask[tuple(idx.T)]; got=im2.mask.mask.reshape(-1)[ok]
            if not np.array_equal(exp,got): msgs.append('mask mismatch %d/%d'%((exp!=got).sum(),ok.sum()))
        for g in lm0:
            if g not in im2.landmarks: msgs.append('lm group lost '+g); continue
            e=np.abs(T.apply(im2.landmarks[g].points)-lm0[g]).max()
            if e>1e-9: msgs.append('lm %s %.2e'%(g,e))
        if msgs: print(tag,name,msgs)
ops2d=[('rescale2',lambda i:i.rescale(2,return_transform=True)),('rescale.75floor',lambda i:i.rescale(.75,round='floor',return_transform=True)),
 ('rescale(1.3,.7)',lambda i:i.rescale((1.3,.7),return_transform=True)),('resize',lambda i:i.resize((10,5),return_transform=True)),
 ('zoom1.5',lambda i:i.zoom(1.5,return_transform=True)),('zoom.5',lambda i:i.zoom(.5,return_transform=True)),
 ('rot30',lambda i:i.rotate_ccw_about_centre(30,return_transform=True)),('rot-45r',lambda i:i.rotate_ccw_about_centre(-45,retain_shape=True,return_transform=True)),
 ('mirror0',lambda i:i.mirror(axis=0,return_transform=True)),('mirror1',lambda i:i.mirror(axis=1,return_transform=True)),
 ('crop',lambda i:i.crop(np.array([1.2,2.5]),np.array([5.1,7.9]),return_transform=True)),('crop_lm',lambda i:i.crop_to_landmarks(group='a',boundary=1,return_transform=True)),
 ('crop_lm_prop',lambda i:i.crop_to_landmarks_proportion(0.1,group='a',return_transform=True)),
 ('tac shear',lambda i:i.transform_about_centre(Affine.init_from_2d_shear(10,20),return_transform=True)),
 ('wts sim',lambda i:i.warp_to_shape((6,8),Similarity(np.array([[1.1,-.2,.5],[.2,1.1,.3],[0,0,1.]])),warp_landmarks=True,return_transform=True)),
 ('resc_diag',lambda i:i.rescale_to_diagonal(15,return_transform=True)),('resc_lm_diag',lambda i:i.rescale_landmarks_to_diagonal_range(9,group='a',return_transform=True)),
 ('resc_to_pc',lambda i:i.rescale_to_pointcloud(PointCloud(i.landmarks['a'].points*1.4),group='a',return_transform=True)),
]
L=np.array([[2.2,3.1],[4.5,6.25],[1.0,7.5],[5.5,1.5]])
def addlm(i):
    i.landmarks['a']=PointCloud(L); i.landmarks['b']=PointCloud(L[:2]+.3); return i
rs=np.random.RandomState(1)
run(addlm(Image(ramp((7,9),3))),ops2d,'Image')
mk=np.zeros((7,9),bool); mk[1:6,2:4]=True; mk[4:6,2:8]=True
run(addlm(MaskedImage(ramp((7,9),2),mask=mk)),ops2d+[('crop_true',lambda i:i.crop_to_true_mask(boundary=1,return_transform=True))],'Masked')
run(addlm(MaskedImage(ramp((7,9),2))),ops2d,'MaskedAllTrue')
run(addlm(BooleanImage(mk)),ops2d,'Boolean')
# 3D
i3=Image(ramp((4,5,6),3)); i3.landmarks['a']=PointCloud(np.array([[1.2,2.2,3.3],[2.5,1.5,4.5],[.5,3.5,1.]]))
ops3=[('rescale1.5',lambda i:i.rescale(1.5,return_transform=True)),('resize',lambda i:i.resize((6,4,9),return_transform=True)),('mirror2',lambda i:i.mirror(axis=2,return_transform=True)),
 ('crop',lambda i:i.crop(np.array([1,0.5,2]),np.array([3.2,4,5]),return_transform=True)),('zoom',lambda i:i.zoom(1.5,return_transform=True))]
run(i3,ops3,'Image3D')
# TPS / PWA warp to shape: template landmarks integer
tmpl=np.array([[1,1],[1,6],[5,1],[5,6],[3,3.]]); srcl=np.array([[1.3,1.2],[1.1,7.2],[5.4,1.5],[5.6,7.5],[3.2,4.1]])
for cls in (ThinPlateSplines,PiecewiseAffine):
    im=Image(ramp((7,9),2)); im.landmarks['a']=PointCloud(srcl)
    t=cls(PointCloud(tmpl),PointCloud(srcl))
    if cls is PiecewiseAffine:
        tm=BooleanImage.init_blank((7,8)).constrain_to_pointcloud(PointCloud(tmpl))
        im2=im.warp_to_mask(tm,t,warp_landmarks=True)
    else:
        im2=im.warp_to_shape((7,8),t,warp_landmarks=True)
    print(cls.__name__,'lm err',np.abs(im2.landmarks['a'].points-tmpl).max(),'sample err',np.abs(im2.sample(PointCloud(tmpl))-im.sample(PointCloud(srcl))).max())
