import numpy as np, warnings, itertools
warnings.simplefilter('ignore')
from menpo.shape import PointCloud
from menpo.transform import *
from menpo.transform.homogeneous import *
rs=np.random.RandomState(0)
def mk(nd):
    src=PointCloud(rs.randn(5,nd)*2+1); 
    def tgt(): return PointCloud(rs.randn(5,nd)*2+1)
    th=0.7
    R2=np.array([[np.cos(th),-np.sin(th)],[np.sin(th),np.cos(th)]])
    if nd==3:
        R=np.eye(3); R[:2,:2]=R2; R=R@np.array([[1,0,0],[0,np.cos(.4),-np.sin(.4)],[0,np.sin(.4),np.cos(.4)]])
    else: R=R2
    H=np.eye(nd+1); H[:nd,:nd]=rs.randn(nd,nd)+2*np.eye(nd); H[:nd,nd]=rs.randn(nd); H[nd,:nd]=0.01*rs.randn(nd)
    A=np.eye(nd+1); A[:nd,:nd]=rs.randn(nd,nd)+2*np.eye(nd); A[:nd,nd]=rs.randn(nd)
    S=np.eye(nd+1); S[:nd,:nd]=1.7*R; S[:nd,nd]=rs.randn(nd)
    return dict(Homogeneous=Homogeneous(H), Affine=Affine(A), Similarity=Similarity(S), Rotation=Rotation(R),
        Translation=Translation(rs.randn(nd)), UniformScale=UniformScale(1.3,nd), NonUniformScale=NonUniformScale(rs.rand(nd)+.5),
        AlignmentAffine=AlignmentAffine(src,tgt()), AlignmentSimilarity=AlignmentSimilarity(src,tgt()), AlignmentRotation=AlignmentRotation(src,tgt()),
        AlignmentTranslation=AlignmentTranslation(src,tgt()), AlignmentUniformScale=AlignmentUniformScale(src,tgt()))
def honest(t):
    h=t.h_matrix; nd=h.shape[0]-1; L=h[:nd,:nd]; tr=h[:nd,nd]; ok=True; tol=1e-9
    aff=np.allclose(h[nd,:nd],0,atol=tol) and abs(h[nd,nd]-1)<tol
    if isinstance(t,Affine) and not aff: return 'not affine'
    if isinstance(t,Similarity):
        s2=(L.T@L)[0,0]
        if not np.allclose(L.T@L, s2*np.eye(nd),atol=1e-8): return 'not similarity'
    if isinstance(t,Rotation):
        if not np.allclose(L.T@L,np.eye(nd),atol=1e-8) or not np.allclose(tr,0,atol=tol): return 'not rotation'
    if isinstance(t,Translation) and not np.allclose(L,np.eye(nd),atol=tol): return 'not translation'
    if isinstance(t,UniformScale) and not (np.allclose(L,L[0,0]*np.eye(nd),atol=tol) and np.allclose(tr,0,atol=tol)): return 'not uscale'
    if isinstance(t,NonUniformScale) and not (np.allclose(L,np.diag(np.diag(L)),atol=tol) and np.allclose(tr,0,atol=tol)): return 'not nuscale'
    return None
bad=0;n=0
for nd in (2,3):
    T=mk(nd); X=rs.randn(6,nd)
    for (na,a),(nb,b) in itertools.product(T.items(),T.items()):
        for op in ('compose_before','compose_after'):
            ha,hb=a.h_matrix.copy(),b.h_matrix.copy()
            c=getattr(a,op)(b); n+=1
            exp=b.apply(a.apply(X)) if op=='compose_before' else a.apply(b.apply(X))
            err=np.abs(c.apply(X)-exp).max()
            msgs=[]
            if err>1e-8: msgs.append(f'map err {err:.1e}')
            if not isinstance(c,Homogeneous) or isinstance(c,TransformChain): msgs.append('not homog '+type(c).__name__)
            elif hasattr(c,'source') : msgs.append('is alignment '+type(c).__name__)
            else:
                h=honest(c)
                if h: msgs.append(h+' '+type(c).__name__)
            if not (np.array_equal(ha,a.h_matrix) and np.array_equal(hb,b.h_matrix)): msgs.append('operand mutated')
            if msgs: bad+=1; print(nd,na,op,nb,'->',type(c).__name__,msgs)
print('pairs',n,'bad',bad)
# decompose
for nd in (2,3):
    T=mk(nd)
    for name in ('Affine','Similarity','AlignmentAffine','Rotation'):
        a=T[name]; parts=a.decompose(); c=parts[0]
        for p in parts[1:]: c=c.compose_before(p)
        print(nd,name,[type(p).__name__ for p in parts], np.abs(c.h_matrix-a.h_matrix).max())
