import numpy as np, warnings, itertools, collections
warnings.simplefilter('ignore')
from menpo.shape import *
import menpo.landmark.labels as L
from menpo.landmark import LabellingError
from menpo.transform import Affine, Rotation, Scale, UniformScale, NonUniformScale, tcoords_to_image_coords, image_coords_to_tcoords, scale_about_centre, rotate_ccw_about_centre
issues=collections.Counter()
# labellers
names=[n for n in dir(L) if '_to_' in n and not n.startswith('bounding_box')]
for nm in names:
    f=getattr(L,nm); acc=[]
    for n in range(1,121):
        for nd in (2,3):
            pts=np.stack([np.arange(n)+0.5*k for k in range(nd)],1).astype(float)+np.arange(n)[:,None]*0.01
            try:
                r=f(pts.copy()); acc.append((n,nd))
            except LabellingError: pass
            except Exception as e: issues[(nm,'other exc',type(e).__name__,nd)]+=1
    sizes=sorted(set(a for a,_ in acc))
    if len(sizes)!=1: issues[(nm,'sizes',tuple(sizes))]+=1
    n=sizes[0]
    for nd in (2,3):
        if (n,nd) not in acc: continue
        pts=np.random.RandomState(0).rand(n,nd)*10
        before=pts.copy(); r=f(pts)
        if not np.array_equal(before,pts): issues[(nm,'input mutated')]+=1
        # reindex
        idx=[]
        for p in r.points:
            w=np.where((pts==p).all(1))[0]
            if len(w)!=1: issues[(nm,'not reindex')]+=1; break
            idx.append(w[0])
        if len(set(idx))!=len(idx): issues[(nm,'dup idx')]+=1
        A=np.random.RandomState(1).randn(nd,nd)+2*np.eye(nd); b=np.arange(nd)*1.0
        r2=f(pts@A.T+b)
        if not np.allclose(r2.points, r.points@A.T+b): issues[(nm,'not commute')]+=1
        if hasattr(r,'labels') and hasattr(r2,'labels') and r.labels!=r2.labels: issues[(nm,'labels differ')]+=1
print('labellers',len(names)); 
for k,v in issues.items(): print(k,v)
# C20
for th in (-400,-135,-30,30,200,725):
    for ax,fn in enumerate([Rotation.init_from_3d_ccw_angle_around_x,Rotation.init_from_3d_ccw_angle_around_y,Rotation.init_from_3d_ccw_angle_around_z]):
        r=fn(th); a=np.zeros(3); a[ax]=1; t=np.deg2rad(th)
        K=np.array([[0,-a[2],a[1]],[a[2],0,-a[0]],[-a[1],a[0],0]]); R=np.eye(3)+np.sin(t)*K+(1-np.cos(t))*K@K
        e=np.abs(r.rotation_matrix-R).max()
        np.random.seed(0); axis,ang=r.axis_and_angle_of_rotation()
        K2=np.array([[0,-axis[2],axis[1]],[axis[2],0,-axis[0]],[-axis[1],axis[0],0]]); R2=np.eye(3)+np.sin(ang)*K2+(1-np.cos(ang))*K2@K2
        e2=np.abs(R2-r.rotation_matrix).max()
        q=r.as_vector(); e3=np.abs(Rotation.init_3d_from_quaternion(q).rotation_matrix-r.rotation_matrix).max()
        if max(e,e2,e3)>1e-9: print('rot3d',th,ax,e,e2,e3)
    r=Rotation.init_from_2d_ccw_angle(th); ax,ang=r.axis_and_angle_of_rotation()
    R2=np.array([[np.cos(ang),-np.sin(ang)],[np.sin(ang),np.cos(ang)]])
    if np.abs(R2-r.rotation_matrix).max()>1e-9: print('rot2d sign',th,np.rad2deg(ang))
for shape in [(2,2),(3,5),(7,4)]:
    t=tcoords_to_image_coords(shape); print(shape,t.apply(np.array([[0,0],[1,0],[0,1],[1,1.]])).tolist(), np.abs(image_coords_to_tcoords(shape).apply(t.apply(np.random.rand(5,2)))).shape)
print(type(Scale([2,2])).__name__,type(Scale([2,3])).__name__,type(Scale(2,n_dims=3)).__name__)
try: Scale([2,0])
except ValueError: print('zero refused')
pc=PointCloud(np.random.rand(5,2)*4+1); c=pc.centre()
T=rotate_ccw_about_centre(pc,-40); print(np.abs(T.apply(c[None])-c).max())
