import numpy as np, warnings, itertools, time
warnings.simplefilter('ignore')
from menpo.model import GMRFVectorModel
from menpo.shape import UndirectedGraph, DirectedGraph, Tree
def ref_precision(X,edges,V,k,mode,bias,edgeless):
    P=np.zeros((V*k,V*k))
    if edgeless:
        for v in range(V):
            c=np.atleast_2d(np.cov(X[:,v*k:(v+1)*k],rowvar=0,bias=bias)); P[v*k:(v+1)*k,v*k:(v+1)*k]+=np.linalg.inv(c)
        return P
    for (a,b) in edges:
        ia=list(range(a*k,(a+1)*k)); ib=list(range(b*k,(b+1)*k))
        if mode=='concatenation':
            c=np.atleast_2d(np.cov(X[:,ia+ib],rowvar=0,bias=bias)); Q=np.linalg.inv(c)
            idx=ia+ib
            P[np.ix_(idx,idx)]+=Q
        else:
            c=np.atleast_2d(np.cov(X[:,ia]-X[:,ib],rowvar=0,bias=bias)); Q=np.linalg.inv(c)
            P[np.ix_(ia,ia)]+=Q; P[np.ix_(ib,ib)]+=Q; P[np.ix_(ia,ib)]-=Q; P[np.ix_(ib,ia)]-=Q
    return P
rs=np.random.RandomState(0)
worst=0;cnt=0;fails={}
t0=time.time()
for V in (2,3,4):
    pairs=list(itertools.combinations(range(V),2))
    for m in range(2**len(pairs)):
        E=[p for i,p in enumerate(pairs) if m>>i&1]
        g=UndirectedGraph.init_from_edges(np.array(E) if E else [],V)
        for k in (1,2,3):
            X=rs.randn(14,V*k)@(np.eye(V*k)+0.3*rs.randn(V*k,V*k))+rs.randn(V*k)
            for mode in ('concatenation','subtraction'):
                for bias in (0,1):
                    try:
                        R=ref_precision(X,[tuple(e) for e in g.edges],V,k,mode,bias,len(E)==0)
                        d=GMRFVectorModel(X,g,mode=mode,bias=bias,sparse=False,dtype=np.float64)
                        s=GMRFVectorModel(X,g,mode=mode,bias=bias,sparse=True,dtype=np.float64)
                        e=max(np.abs(d.precision-R).max(), np.abs(s.precision.toarray()-R).max())/max(1,np.abs(R).max())
                        worst=max(worst,e); cnt+=1
                        if e>1e-9: fails[(V,tuple(E),k,mode,bias)]=e
                        x=rs.randn(3,V*k)
                        md=d.mahalanobis_distance(x); ms=s.mahalanobis_distance(x)
                        if np.abs(md-ms).max()>1e-9*max(1,np.abs(md).max()): fails[('mahal',V,tuple(E),k,mode,bias)]=np.abs(md-ms).max()
                        m1=np.array([d.mahalanobis_distance(x[i]) for i in range(3)])
                        if np.abs(m1-md).max()>1e-9*max(1,np.abs(md).max()): fails[('mahal1',V,tuple(E),k,mode,bias)]=1
                    except Exception as ex:
                        fails[('EXC',type(ex).__name__,k,mode,len(E)==0)]=fails.get(('EXC',type(ex).__name__,k,mode,len(E)==0),0)+1
print(cnt,worst,time.time()-t0)
for k,v in list(fails.items())[:20]: print(k,v)
