import numpy as np, warnings, itertools, time
warnings.simplefilter('ignore')
from menpo.model import PCAVectorModel
def compositions(n, first_min):
    out=[]
    def rec(rem, cur):
        if rem==0: out.append(cur); return
        for k in range(1,rem+1): rec(rem-k,cur+[k])
    for f in range(first_min,n+1): rec(n-f,[f])
    return out
def data(n,d,seed):
    rs=np.random.RandomState(seed)
    r=min(n,d)
    U=np.linalg.qr(rs.randn(n,r))[0]; V=np.linalg.qr(rs.randn(d,r))[0]
    s=np.array([5,3,2,1.2,.7,.4,.25,.15])[:r]
    return U@np.diag(s)@V.T*3+rs.randn(d)
worst={}
t0=time.time();cnt=0
for seed in range(3):
  for n,d in [(6,3),(6,10),(8,3),(8,10)]:
    for centre in (True,False):
        X=data(n,d,seed)
        for comp in compositions(n,2):
            m=PCAVectorModel(X[:comp[0]].copy(),centre=centre); pos=comp[0]
            for k in comp[1:]:
                m.increment(X[pos:pos+k].copy()); pos+=k; cnt+=1
                b=PCAVectorModel(X[:pos].copy(),centre=centre)
                e_n=abs(m.n_samples-b.n_samples)
                e_m=np.abs(m.mean()-b.mean()).max()
                ne=min(len(m.eigenvalues),len(b.eigenvalues))
                e_l=(np.abs(m.eigenvalues[:ne]-b.eigenvalues[:ne])/b.eigenvalues[0]).max() if len(m.eigenvalues)==len(b.eigenvalues) else 99
                P1=m.components.T@m.components; P2=b.components.T@b.components
                e_p=np.abs(P1-P2).max() if P1.shape==P2.shape and m.n_components==b.n_components else 99
                key=(n,d,centre)
                w=worst.get(key,[0,0,0,0]); worst[key]=[max(w[0],e_n),max(w[1],e_m),max(w[2],e_l),max(w[3],e_p)]
print(cnt,time.time()-t0)
for k,v in worst.items(): print(k,['%.1e'%x for x in v])
