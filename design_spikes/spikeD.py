import numpy as np, warnings, itertools, time
warnings.simplefilter('ignore')
from menpo.shape import PointCloud, TriMesh
from menpo.transform import *
from menpo.transform.homogeneous import *
from menpo.transform.piecewiseaffine.base import PythonPWA, CachedPWA
def gen(rs,n,nd,mind=0.8):
    while True:
        P=rs.rand(n,nd)*6
        D=np.linalg.norm(P[:,None]-P[None],axis=2)+np.eye(n)*9
        if D.min()>mind: return P
worst={}
for seed in range(10):
    rs=np.random.RandomState(seed)
    for n in (4,5,6):
        S=gen(rs,n,2); T=S@np.array([[np.cos(.5),-np.sin(.5)],[np.sin(.5),np.cos(.5)]]).T*1.3+rs.randn(n,2)*0.3+2
        for kern in (None,'r'):
            k=None if kern is None else R2LogRRBF(S)
            t=ThinPlateSplines(PointCloud(S),PointCloud(T),kernel=k)
            e=np.abs(t.apply(S)-T).max(); sv=np.linalg.svd(t.l,compute_uv=False).min()
            w=worst.get(('tps',kern),[0,9]); worst[('tps',kern)]=[max(w[0],e),min(w[1],sv)]
        # retarget == fresh
        T2=S*np.array([1,-1])+rs.randn(n,2)*.2
        for cls,opts in [(AlignmentTranslation,{}),(AlignmentUniformScale,{}),(AlignmentAffine,{}),(AlignmentSimilarity,{}),(AlignmentSimilarity,{'allow_mirror':True}),(AlignmentRotation,{'allow_mirror':True}),(ThinPlateSplines,{}),(PythonPWA,{}),(CachedPWA,{})]:
            a=cls(PointCloud(S),PointCloud(T),**opts); a.set_target(PointCloud(T2)); a.set_target(PointCloud(T))
            b=cls(PointCloud(S),PointCloud(T),**opts)
            X=S.mean(0)+ (S-S.mean(0))*0.3
            try: e=np.abs(a.apply(X)-b.apply(X)).max()
            except Exception as ex: e=-1
            key=(cls.__name__,tuple(opts.items())); worst[key]=max(worst.get(key,0),e)
for k,v in worst.items(): print(k,v)
