import numpy as np, time, warnings
warnings.simplefilter('ignore')
from menpo.image import Image, MaskedImage, BooleanImage
from menpo.shape import PointCloud
from menpo.transform import Affine, Rotation, Translation
def ramp(shape, C):
    idx=np.indices(shape).astype(float)
    ch=[idx[k] for k in range(len(shape))]
    extra=[1+sum((k+2)*idx[k] for k in range(len(shape))), 3-idx[0]+0.5*idx[-1]]
    return np.stack((ch+extra)[:C])
def rampf(shape,C,P):
    cols=[P[:,k] for k in range(len(shape))]
    extra=[1+sum((k+2)*P[:,k] for k in range(len(shape))), 3-P[:,0]+0.5*P[:,-1]]
    return np.stack((cols+extra)[:C])
shape=(7,9); C=3
im=Image(ramp(shape,C))
im.landmarks['a']=PointCloud(np.array([[2.2,3.1],[4.5,6.25],[1.0,7.5],[5.5,1.5]]))
def check(name, res):
    im2,T=res
    P=np.indices(im2.shape).reshape(len(im2.shape),-1).T.astype(float)
    S=T.apply(P)
    inside=np.all((S>=0)&(S<=np.array(shape)-1),axis=1)
    got=im2.pixels.reshape(C,-1)[:,inside]; exp=rampf(shape,C,S[inside])
    e1=np.abs(got-exp).max() if inside.any() else -1
    l2=im2.landmarks['a'].points
    e2=np.abs(T.apply(l2)-im.landmarks['a'].points).max()
    ins=np.all((l2>=0)&(l2<=np.array(im2.shape)-1),axis=1)
    e3=np.abs(im2.sample(l2[ins])-im.sample(im.landmarks['a'].points[ins])).max() if ins.any() else -1
    print(f"{name:40s} shape={im2.shape} inside={inside.sum():3d}/{len(P)} pix={e1:.2e} lm={e2:.2e} samp={e3:.2e} lm_in={ins.sum()}")
t0=time.time()
check('rescale 2', im.rescale(2,return_transform=True))
check('rescale 1.5 floor', im.rescale(1.5,round='floor',return_transform=True))
check('rescale (1.3,.7)', im.rescale((1.3,.7),return_transform=True))
check('resize', im.resize((10,5),return_transform=True))
check('zoom 1.5', im.zoom(1.5,return_transform=True))
check('rot 30', im.rotate_ccw_about_centre(30,return_transform=True))
check('rot -45 retain', im.rotate_ccw_about_centre(-45,retain_shape=True,return_transform=True))
check('mirror0', im.mirror(axis=0,return_transform=True))
check('crop frac', im.crop(np.array([1.2,2.5]),np.array([5.1,7.9]),return_transform=True))
check('crop_to_lm', im.crop_to_landmarks(boundary=1,return_transform=True))
check('tac shear', im.transform_about_centre(Affine.init_from_2d_shear(10,20),return_transform=True))
print('time',time.time()-t0)
