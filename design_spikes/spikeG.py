import numpy as np, warnings
warnings.simplefilter('ignore')
exec(open('/verif/design_spikes/spikeF.py').read().split("for name,o in objs.items():")[0])
from menpo.base import Vectorizable
objs['hom']=Homogeneous(np.array([[1,.2,3],[.1,2,1],[0.01,0.02,1.]]))
objs['sim']=Similarity(np.array([[1,-.2,3],[.2,1,1],[0,0,1.]])); objs['tr']=Translation([1,2.]); objs['nus']=NonUniformScale([1,2.])
objs['rot3']=Rotation.init_from_3d_ccw_angle_around_x(33).compose_before(Rotation.init_from_3d_ccw_angle_around_z(-50))
s3=PointCloud(rs.rand(5,3)); t3=PointCloud(rs.rand(5,3))
objs['alrot3']=AlignmentRotation(s3,t3); objs['altr']=AlignmentTranslation(src,tgt); objs['alus']=AlignmentUniformScale(src,tgt)
def obs(o):
    try: return o.as_vector().copy()
    except Exception as e: return None
for name,o in objs.items():
    if not isinstance(o,Vectorizable): continue
    msgs=[]
    try:
        v=o.as_vector()
        if v.ndim!=1: msgs.append('ndim %d'%v.ndim)
        try:
            npar=o.n_parameters
            if v.size!=npar: msgs.append('len!=npar')
        except Exception as e: msgs.append('n_parameters EXC '+type(e).__name__)
        if v.flags.writeable: msgs.append('writeable')
        for p,b in buffers(o):
            if not b.flags.writeable: msgs.append('obj buffer readonly '+p)
        o2=o.from_vector(v)
        if type(o2) is not type(o): msgs.append('class '+type(o2).__name__)
        if hasattr(o,'landmarks') and o.has_landmarks and not (hasattr(o2,'landmarks') and o2.has_landmarks): msgs.append('landmarks dropped')
        if not np.allclose(o2.as_vector(),v,atol=1e-12): msgs.append('roundtrip')
        for p,b in buffers(o2):
            if not b.flags.writeable: msgs.append('result buffer readonly '+p)
            for p1,b1 in buffers(o):
                if b.size and np.shares_memory(b,b1): msgs.append('result shares '+p)
        for wl in (0,1,v.size-1,v.size+1,2*v.size):
            if wl==v.size or wl<0: continue
            try:
                o3=o.from_vector(np.zeros(wl,dtype=v.dtype))
                try:
                    a=o3.as_vector(); n=o3.n_parameters; str(o3)
                    msgs.append('wrong len %d accepted ok(len %d)'%(wl,a.size))
                except Exception as e: msgs.append('wrong len %d -> broken obj (%s)'%(wl,type(e).__name__))
            except Exception as e: pass
    except NotImplementedError as e: msgs.append('not vectorizable')
    print(name, msgs)
