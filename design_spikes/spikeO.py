import numpy as np, warnings, itertools, collections
warnings.simplefilter('ignore')
exec(open('/verif/design_spikes/spikeF.py').read().split("for name,o in objs.items():")[0])
from menpo.transform import WithDims
issues=collections.Counter()
shapes={k:objs[k] for k in ('pc','tm','ctm','ttm','pug','pdg','pt','lpug')}
P3=rs.rand(5,3)*5
shapes3={'pc3':lms(PointCloud(P3)),'tm3':lms(TriMesh(P3,tl)),'pug3':lms(PointUndirectedGraph.init_from_edges(P3,np.array([[0,1],[1,2],[3,4]])))}
src=PointCloud(P*1.0); tgt=PointCloud(P*1.2+rs.rand(5,2))
hull_src=PointCloud(np.array([[-1,-1],[7,-1],[-1,7],[7,7.],[3,3]])); hull_tgt=PointCloud(hull_src.points*1.1+rs.rand(5,2)*.3)
T2={'hom':Homogeneous(np.array([[1,.2,3],[.1,2,1],[0.01,0.02,1.]])),'aff':objs['aff'],'sim':Similarity(np.array([[1,-.2,3],[.2,1,1],[0,0,1.]])),'rot':objs['rot'],'us':objs['us'],
 'nus':NonUniformScale([1,2.]),'tr':Translation([1,2.]),'alaff':AlignmentAffine(src,tgt),'alsim':AlignmentSimilarity(src,tgt),'alrot':AlignmentRotation(src,tgt),'altr':AlignmentTranslation(src,tgt),'alus':AlignmentUniformScale(src,tgt),
 'chain':TransformChain([objs['aff'],objs['rot'],Translation([1,1.])]),'wd':WithDims([1,0]),'tps':ThinPlateSplines(hull_src,hull_tgt),'pwa':PiecewiseAffine(hull_src,hull_tgt)}
def struct(o):
    d={}
    for a in ('trilist','colours'): 
        if hasattr(o,a): d[a]=getattr(o,a).copy()
    if hasattr(o,'adjacency_matrix'): d['adj']=o.adjacency_matrix.toarray()
    if hasattr(o,'tcoords'): d['tc']=o.tcoords.points.copy(); d['tex']=o.texture.pixels.copy()
    if hasattr(o,'_labels_to_masks'): d['lab']=[(k,v.copy()) for k,v in o._labels_to_masks.items()]
    if hasattr(o,'root_vertex'): d['root']=o.root_vertex
    return d
def eq(a,b):
    if a.keys()!=b.keys(): return False
    for k in a:
        if k=='lab':
            if [x for x,_ in a[k]]!=[x for x,_ in b[k]] or not all(np.array_equal(u,v) for (_,u),(_,v) in zip(a[k],b[k])): return False
        elif not np.array_equal(a[k],b[k]): return False
    return True
for sn,s in shapes.items():
    for tn,t in T2.items():
        p0=s.points.copy(); l0={g:s.landmarks[g].points.copy() for g in s.landmarks}; st0=struct(s)
        tv=None
        try: r=t.apply(s)
        except Exception as e: issues[(sn,tn,'EXC',type(e).__name__)]+=1; continue
        if type(r) is not type(s): issues[(sn,tn,'class')]+=1
        if not np.array_equal(r.points,t.apply(p0)): issues[(sn,tn,'points')]+=1
        for g in l0:
            if g not in r.landmarks or not np.array_equal(r.landmarks[g].points,t.apply(l0[g])): issues[(sn,tn,'lm',g)]+=1
        if not eq(struct(r),st0): issues[(sn,tn,'struct')]+=1
        if not np.array_equal(s.points,p0) or not all(np.array_equal(s.landmarks[g].points,l0[g]) for g in l0) or not eq(struct(s),st0): issues[(sn,tn,'input mutated')]+=1
        if np.shares_memory(r.points,s.points): issues[(sn,tn,'shares')]+=1
print(len(shapes)*len(T2)); 
for k,v in issues.items(): print(k,v)
# C04
X=rs.rand(6,2)*4+1
for tn,t in T2.items():
    if not hasattr(t,'pseudoinverse'): continue
    try:
        p=t.pseudoinverse(); a=np.abs(p.apply(t.apply(X))-X).max(); b=np.abs(t.apply(p.apply(X))-X).max()
        extra=''
        if hasattr(t,'source') and hasattr(p,'source'): extra='swap ok' if np.array_equal(p.source.points,t.target.points) and np.array_equal(p.target.points,t.source.points) else 'SWAP WRONG'
        print(tn,type(p).__name__,'%.1e %.1e'%(a,b),t.has_true_inverse,extra)
    except Exception as e: print(tn,'EXC',type(e).__name__,e)
