mkmut () 
{ 
    rm -rf /tmp/mm && mkdir -p /tmp/mm/a /tmp/mm/b && cp --parents -r /dev/null /tmp/mm 2> /dev/null;
    mkdir -p /tmp/mm/a/$(dirname $2) /tmp/mm/b/$(dirname $2);
    cp /repo/$2 /tmp/mm/a/$2;
    cp /repo/$2 /tmp/mm/b/$2;
    python3 - "$2" "$3" "$4" <<'P'
import sys
f,old,new=sys.argv[1:4]
p='/tmp/mm/b/'+f; s=open(p).read()
assert s.count(old)==1,(s.count(old),old)
open(p,'w').write(s.replace(old,new))
P

    ( cd /tmp/mm && diff -u a/$2 b/$2 > /verif/mutants/$1.patch );
    rm -rf /tmp/mm;
    wc -l mutants/$1.patch
}
