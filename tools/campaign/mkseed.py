import json,sys,subprocess,os
cid,var=sys.argv[1],sys.argv[2]
for l in open('/verif/properties.jsonl'):
    p=json.loads(l)
    if p['id']==cid: break
wt='/tmp/wt-%s-%s'%(cid,var)
if not os.path.exists(wt):
    subprocess.check_call(['git','-C','/repo','worktree','add','--detach',wt,'HEAD'],stdout=subprocess.DEVNULL,stderr=subprocess.DEVNULL)
s=open('/tmp/seed_template.txt').read()
s=s.replace('@WT@',wt).replace('@TITLE@',p['title']).replace('@STATEMENT@',p['statement']).replace('@QUANT@',p['quantifier']['text']).replace('@FILES@',', '.join(p['anchors']['files'])).replace('@VAR@',var)
open('/tmp/seedprompts/%s-%s.txt'%(cid,var),'w').write(s)
print(wt)
