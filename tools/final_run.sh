#!/bin/bash
# tools/final_run.sh quick|thorough [Cxx ...]: run the given tier of every check against /repo, PAR at a time,
# and print one line per run.  quick: seeds 0..2 (the last run, seed 0, leaves the evidence file);
# thorough: seed 0 (leaves the evidence file).  Output lines: <id> <tier> seed=<s> rc=<rc> <summary>
TIER="${1:-quick}"; shift
IDS="$*"; [ -z "$IDS" ] && IDS="C01 C02 C03 C04 C05 C06 C07 C08 C09 C10 C11 C12 C13 C14 C15 C16 C17 C18 C19 C20"
HERE="$(cd "$(dirname "${BASH_SOURCE[0]}")/.." && pwd)"; cd "$HERE"
PAR="${PAR:-2}"; export VERIF_JOBS="${VERIF_JOBS:-8}"
one(){ id=$1; tier=$2; seed=$3; out=$(VERIF_SEED=$seed ./check $id $tier 2>&1); rc=$?; echo "$id $tier seed=$seed rc=$rc $(echo "$out" | grep -E "^$id $tier" | tail -1 | cut -d: -f2-) $(echo "$out" | grep -cE '^(VIOLATION|VACUOUS|HARNESS|NONDET)') alarm-lines"; }
export -f one
if [ "$TIER" = quick ]; then
  for seed in 2 1 0; do printf "%s\n" $IDS | xargs -P "$PAR" -I{} bash -c "one {} quick $seed"; done
else
  printf "%s\n" $IDS | xargs -P "$PAR" -I{} bash -c "one {} thorough 0"
fi
