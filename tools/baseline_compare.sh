#!/bin/bash
# run the repository's pinned suite on a tree (default /repo) and compare with /root/.vp/BASELINE.json stable_pass
TREE="${1:-/repo}"; OUT="$(mktemp /tmp/junit-XXXXXX.xml)"
( cd "$TREE" && PYTHONDONTWRITEBYTECODE=1 /venv/bin/python -m pytest -q -p no:cacheprovider --timeout=900 --continue-on-collection-errors -n 8 --junitxml="$OUT" >/dev/null 2>&1 )
python3 - "$OUT" <<'P'
import json,sys,xml.etree.ElementTree as ET
base=json.load(open('/root/.vp/BASELINE.json'))
stable=set(base['stable_pass'])
passed=set();failed=set()
for tc in ET.parse(sys.argv[1]).getroot().iter('testcase'):
    name=tc.get('classname')+'::'+tc.get('name')
    bad=any(c.tag in('failure','error') for c in tc)
    skipped=any(c.tag=='skipped' for c in tc)
    (failed if bad else passed).add(name) if not skipped else None
print('passed',len(passed),'failed',len(failed))
reg=sorted(stable-passed)
print('stable_pass now not passing:',len(reg)); print('\n'.join(reg[:20]))
print('newly passing (not in stable_pass):',len(passed-stable))
P
rm -f "$OUT"
