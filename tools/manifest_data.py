NOTES = ("All verdicts come from bounded exhaustive exploration of the real menpo code (DESIGN.md). "
         "Known, unrepaired defects are listed in known_findings.json and matched by footprint predicates.")
CHECKS = {
 "C19": {
  "text": "Every program of LazyList operations up to the depth bound (2 quick; 3 wide + 4 narrow thorough) over 6 base configurations is executed on the real LazyList and on a plain-list-of-expression-trees model; laziness is decided from an evaluation log, non-mutation by re-reading every live list after every step. Bounded exhaustive: no sampling.",
  "design_ref": "DESIGN.md 3/C19",
  "note": "lists capped at 8 elements; deeper levels use reduced slice/index alphabets; boolean index arrays excluded as in the property",
  "technique": "explicit-state BFS over operation programs on the implementation, differential against a reference model",
 },
}
