NOTES = 'All verdicts come from bounded exhaustive exploration of the real menpo code (DESIGN.md). Known, unrepaired defects are listed in known_findings.json and matched by footprint predicates.'
CHECKS = {'C01': {'design_ref': 'DESIGN.md 3/C01',
         'note': 'continuous parameters on letter sets; pixels whose interpolation support leaves the source are not compared; only the scipy interpolation '
                 'path exists here; consistent re-framing of pixels+landmarks+transform is not a violation ([interp])',
         'technique': 'explicit-state exploration of op sequences on the implementation (depth 1-2), each transition checked against a reference interpolation '
                      'model',
         'text': 'Every image kind (11 letters: Image/MaskedImage/BooleanImage, 2-D and 3-D, 1-4 channels, float64/float32/uint8/bool, all-true and sparse '
                 'masks) is driven through every geometry-op letter (crop family, rescale/resize family with every rounding mode and order, zoom, rotations in '
                 'all quadrants with retain_shape on/off, mirror, transform-about-centre, warp_to_shape/warp_to_mask with affine, TPS and piecewise-affine '
                 'warps, pyramids); the result becomes the next state (thorough: second op from a reduced alphabet). Each step is decided pixel by pixel '
                 'against an independent multilinear/nearest reference driven by the returned transform, landmark by landmark through the same transform, and '
                 'mask pixel by mask pixel.'},
 'C10': {'design_ref': 'DESIGN.md 3/C10',
         'note': 'float64 data with a guarded well-separated spectrum (n<=11, d<=10); tolerances 1e-9..1e-11 with >=100x margin over the measured error',
         'technique': 'explicit-state BFS over bookkeeping histories on the implementation, differential against an SVD reference model and against fresh '
                      'builds',
         'text': 'Every data letter (both sides of and at n=d so both pca code paths, centred/uncentred, rank-deficient, vector-backed and '
                 'PointCloud/Image/MaskedImage-backed) is built and the static PCA identities checked against an SVD reference; the bookkeeping machine '
                 '(n_active_components by int / numpy int / variance fraction, trim_components by int / fraction / default, invalid values) is explored '
                 'breadth-first to depth 3 (quick) / 4 (thorough) with the pair (kept, active) as model state; after every step the identities on the active '
                 'prefix, the variance accounting and observational equality with a model built fresh with that many components are required.'},
 'C13': {'design_ref': 'DESIGN.md 3/C13',
         'note': 'finite letter grids stand for the continuous bounds; resampling path at fractional centres compared on interior points only',
         'technique': 'exhaustive enumeration of a finite input/operation alphabet on the implementation against a slicing / per-pixel reference model '
                      '(explicit-state exploration, depth 1-2)',
         'text': 'Every crop box of a per-axis letter product (each side separately inside / fractional / outside; 2-D full product, 3-D reduced) x constrain '
                 'on/off on 9 image letters (3 classes, 2-D/3-D, uint8/float/bool, 1-5 channels), chained to depth 2 in thorough, is compared bit for bit with '
                 'plain slicing incl. landmarks, mask, dtype and the refusal contract; patch extraction is run on EVERY integer centre from -2 to S+1 for 6 '
                 'patch shapes x 3 offset sets x both paths against a per-pixel reference, plus fractional centres and extract/set round trips.'},
 'C19': {'design_ref': 'DESIGN.md 3/C19',
         'note': 'lists capped at 8 elements; deeper levels use reduced slice/index alphabets; boolean index arrays excluded as in the property',
         'technique': 'explicit-state BFS over operation programs on the implementation, differential against a reference model',
         'text': 'Every program of LazyList operations up to the depth bound (2 quick; 3 wide + 4 narrow thorough) over 6 base configurations is executed on '
                 'the real LazyList and on a plain-list-of-expression-trees model; laziness is decided from an evaluation log, non-mutation by re-reading '
                 'every live list after every step. Bounded exhaustive: no sampling.'},
 'C20': {'design_ref': 'DESIGN.md 3/C20',
         'note': 'continuous quantifiers decided on letter grids; open finding D4 (2-D angle sign) matched by footprint; numpy.random seeded around the 3-D '
                 'axis-angle query',
         'technique': 'explicit-state BFS over constructor/composition sequences plus exhaustive enumeration of parameter letters, compared with closed-form '
                      'references',
         'text': 'Rotation constructors are explored as a state machine (accumulated rotation, every sequence of angle letters up to depth 2/3 per axis and '
                 "unit) against Rodrigues' formula, with the reported axis/angle required to reconstruct the matrix; axis-angle and quaternion round trips on "
                 'a 29x13 axis-angle grid; about-centre transforms on 6 object letters x all transform letters with an offset alphabet; Scale factory letters; '
                 'texture-coordinate corner tables on 6 image shapes.'}}
