NOTES = 'All verdicts come from bounded exhaustive exploration of the real menpo code (DESIGN.md). Known, unrepaired defects are listed in known_findings.json and matched by footprint predicates.'
CHECKS = {'C01': {'design_ref': 'DESIGN.md 3/C01',
         'note': 'continuous parameters on letter sets; pixels whose interpolation support leaves the source are not compared; only the scipy interpolation '
                 'path exists here; consistent re-framing of pixels+landmarks+transform is not a violation ([interp])',
         'technique': 'explicit-state exploration of op sequences on the implementation (depth 1-2), each transition checked against a reference interpolation '
                      'model',
         'text': 'Every image kind (11 letters: Image/MaskedImage/BooleanImage, 2-D and 3-D, 1-4 channels, float64/float32/uint8/bool, all-true and sparse '
                 'masks) is driven through every geometry-op letter (crop family, rescale/resize family with every rounding mode and order, zoom, rotations in '
                 'all quadrants with retain_shape on/off, mirror, transform-about-centre, warp_to_shape/warp_to_mask with affine, TPS and piecewise-affine '
                 'warps, pyramids); the result becomes the next state (thorough: second op from a reduced alphabet). Each step is decided pixel by pixel '
                 'against an independent multilinear/nearest reference driven by the returned transform, landmark by landmark through the same transform, and '
                 'mask pixel by mask pixel.'},
 'C02': {'design_ref': 'DESIGN.md 3/C02',
         'note': "finite parameter letters stand for 'all finite parameter values'; 5-point shapes",
         'technique': 'exhaustive cross product of shape letters x transform letters explored to depth 2 on the implementation against an array-level '
                      'reference model',
         'text': 'Cross product of every shape class (8 classes x 2-D/3-D x 0/1/2 landmark groups, plus empty-manager, nested-group and out-of-domain '
                 'variants: 96 roots) with every transform letter (12 homogeneous-family classes, chain, dimension slicing, TPS, piecewise affine; unbatched '
                 'and batch_size=2), depth 2 in thorough (a second transform applied to the result). Oracle: result class, points == transform applied to the '
                 'bare array and == reference matrix product, every landmark group moved by the same map, connectivity/trilist/labels/colours/texture/tcoords '
                 'carried unchanged, input shape, landmarks and transform unchanged (observation digests), no observable aliasing between result and input.'},
 'C03': {'design_ref': 'DESIGN.md 3/C03',
         'note': 'finite operand letters stand for all parameter values; thorough level 3 uses a reduced 8-letter alphabet',
         'technique': 'explicit-state BFS over operation histories on the implementation, each transition checked against a reference model',
         'text': 'Compose programs are explored as a state machine: state = the transform built so far (plus the untouched operand pool), model = the ordered '
                 'list of operand maps; operations = compose_before / compose_after / both in-place variants x every operand letter (12 homogeneous-family '
                 'classes incl. alignments, chain, TPS, piecewise affine, dimension slicing; 2-D, 3-D and a near-identity world that keeps points inside warp '
                 'domains) with the state as receiver and as argument, depth 2 (quick) / 3 (thorough). Oracle per step: composition law on probe points, '
                 'operands unchanged (also after the following step), in-place accepted iff the documented class gate and then same map and still an honest '
                 'member of its class, homogeneous x homogeneous gives a single invertible non-alignment homogeneous transform whose class is honest, '
                 'Affine.decompose recomposes.'},
 'C04': {'design_ref': 'DESIGN.md 3/C04',
         'note': 'TPS is asked the interpolation / reverse-fit clauses only (it declares no true inverse); parameter letters stand for the continuous '
                 'quantifier',
         'technique': 'explicit-state BFS over operation histories on the implementation, each transition checked against a reference model',
         'text': 'Every invertible transform letter (7 plain + 5 alignment homogeneous classes in 2-D/3-D with rotation/mirror/anisotropic/shear/projective '
                 'parameter letters, piecewise affine over several triangulations, TPS with 3 kernels x several point counts and targets, the tcoords pair) is '
                 'explored under pseudoinverse (chained: inverse of the inverse), retargeting and one in-place composition to depth 3 (quick) / 5 (thorough). '
                 'Oracle: two-sided inverse on domain probes and equality with the reference inverse map, class honesty predicates, source/target swap for '
                 'alignments, landmarks sent back exactly for interpolating warps (reverse-fit spline solved independently), receiver unchanged.'},
 'C05': {'design_ref': 'DESIGN.md 3/C05',
         'note': 'open finding D24 matched by footprint; [interp] well-formed = own queries do not fail',
         'technique': 'explicit-state BFS over operation histories on the implementation, each transition checked against a reference model',
         'text': 'Every concrete Vectorizable class (all shape classes 2-D/3-D with landmarks, Image/MaskedImage/BooleanImage letters, every vectorizable '
                 'homogeneous transform and alignment variant) x vector letters (own vector, zeros, generic, canonical quaternions from an axis-angle grid) x '
                 'every wrong length {0,1,n-1,n+1,2n,...}, explored to depth 2 (quick) / 3 (thorough: from_vector results and in-place composed objects are '
                 'vectorised again). Oracle: read-only 1-D vector of n_parameters, owner writable and unchanged, complete-observation round trip, '
                 'from_vector(v).as_vector()==v, masked raster order, alignment target sync, wrong length raises or yields a well-formed object (battery of '
                 'own queries).'},
 'C06': {'design_ref': 'DESIGN.md 3/C06',
         'note': 'thorough levels 4-5 use a narrowed alphabet; buffers are discovered by walking __dict__ (only to find places to write; verdicts use the '
                 'public observation)',
         'technique': 'explicit-state BFS over operation histories on the implementation, each transition checked against a reference model',
         'text': '(a) 153 Copyable letters (shapes, images, landmark managers, transforms incl. chains/alignments/warps, linear and PCA models, lazy lists): '
                 'copy() must be observationally equal and every write into every reachable array / sparse component / list / dict and every public mutator '
                 'applied to either side must be invisible in the other (alignment source/target and chain members exempt by documented design); (b) the '
                 'landmark-manager machine (set, set None, get, get None, del, iterate, copy, assign manager to owner, copy/transform owner, edit pool value, '
                 'edit fetched group) explored breadth-first to depth 3 (quick) / 5 (thorough) against an ordered-dict-of-owned-arrays model, with write '
                 'probes on every newly stored group.'},
 'C07': {'design_ref': 'DESIGN.md 3/C07',
         'note': 'continuous families decided on parameter grids; tolerances >=1000x over the measured error',
         'technique': 'exhaustive enumeration of alignment letters x family members x noise letters on the implementation against closed-form references and '
                      'competitor grids',
         'text': '21 alignment class/option letters x 4-5 source letters (3-6 points 2-D, 4-5 points 3-D, PWA fan) x every synthesising family member (26 '
                 'quick / 67-70 thorough: translations, scales, rotations in all quadrants, reflections, similarities, affinities with shear / negative '
                 'determinant) x noise levels; thorough re-aligns the aligned source (depth 2). Oracle: exact recovery at noise 0, closed-form references '
                 '(centroid difference, Kabsch via polar decomposition, lstsq) plus exhaustive competitor grids for optimality, determinant sign, '
                 'centroid/size clauses, TPS/PWA interpolation, PWA affinity inside triangles and continuity across edges, '
                 'aligned_source/alignment_error/target bookkeeping, GPA.'},
 'C08': {'design_ref': 'DESIGN.md 3/C08',
         'note': 'general-position point sets; exact comparison (same arithmetic on both sides)',
         'technique': 'explicit-state BFS over operation histories on the implementation, each transition checked against a reference model',
         'text': 'For 29 alignment class/option letters (similarity rotation x mirror, rotation mirror, TPS kernel x singular-value floor, both '
                 'piecewise-affine implementations, translation, uniform scale, affine; 2-D and 3-D) every history of set_target (4 targets incl. the source '
                 'itself), copy and wrong-sized targets up to depth 3 (quick) / 4 (thorough) is compared exactly with a freshly constructed alignment with the '
                 'same options (map, matrix/coefficients, target, aligned source, error, pseudoinverse); sources and caller point sets must be untouched; '
                 'wrong sizes must raise ValueError and change nothing; GPA per-shape transforms must equal the similarity alignments to the reported target.'},
 'C09': {'design_ref': 'DESIGN.md 3/C09',
         'note': 'open finding D26 (batched chain with a PWA member) matched by footprint; thorough depth 4 only for letters that hold state',
         'technique': 'explicit-state BFS over operation histories on the implementation, each transition checked against a reference model',
         'text': '27 transform letters (CachedPWA, PythonPWA, Delaunay PWA, TPS with both kernels, the RBFs alone, every homogeneous representative 2-D/3-D, '
                 'chains containing a PWA, WithDims) are explored under histories of apply on a pool of arrays (incl. inputs closer than any tolerance), '
                 'batched apply, apply on shapes aliasing an array, in-place overwrites / 1-ulp pokes of previously passed arrays and scribbling on returned '
                 'arrays, to depth 3 (quick) / 4 (thorough, cached letters); every result must equal bitwise a never-used twin applied to a private copy and a '
                 'numpy reference; every batch size 1..n+2; every subset pattern of out-of-domain points x batch sizes with the raised containment mask '
                 'compared with an independent point-in-triangle test; BooleanImage.constrain_to_pointcloud for every batch size.'},
 'C10': {'design_ref': 'DESIGN.md 3/C10',
         'note': 'float64 data with a guarded well-separated spectrum (n<=11, d<=10); tolerances 1e-9..1e-11 with >=100x margin over the measured error',
         'technique': 'explicit-state BFS over bookkeeping histories on the implementation, differential against an SVD reference model and against fresh '
                      'builds',
         'text': 'Every data letter (both sides of and at n=d so both pca code paths, centred/uncentred, rank-deficient, vector-backed and '
                 'PointCloud/Image/MaskedImage-backed) is built and the static PCA identities checked against an SVD reference; the bookkeeping machine '
                 '(n_active_components by int / numpy int / variance fraction, trim_components by int / fraction / default, invalid values) is explored '
                 'breadth-first to depth 3 (quick) / 4 (thorough) with the pair (kept, active) as model state; after every step the identities on the active '
                 'prefix, the variance accounting and observational equality with a model built fresh with that many components are required.'},
 'C11': {'design_ref': 'DESIGN.md 3/C11',
         'note': 'random chunkings for larger n are outside the family; guarded data (smallest singular value of every prefix >= 5e-3 s_max)',
         'technique': 'explicit-state BFS over operation histories on the implementation, each transition checked against a reference model',
         'text': 'Incremental PCA and incremental GMRF are explored as state machines: state = (data letter, samples consumed), transition = increment(next k '
                 'samples) for every k that fits, so EVERY composition of n (n up to 8 quick / 12 thorough) into an initial batch plus increments is executed, '
                 'with states merged by prefix (confluence) and no-merge roots executing every chunking literally. After every increment n_samples, mean, '
                 'eigenvalues, principal projector and eigen-directions (PCA) or mean vector and dense precision (GMRF: 7-12 graphs x mode x storage x bias x '
                 '1-2 features per vertex x 4 feed kinds) must equal both the batch model of the prefix and a plain-numpy definition.'},
 'C12': {'design_ref': 'DESIGN.md 3/C12',
         'note': 'one guarded data letter of 14 samples per (V, k); float32 tolerance 1e-3, float64 1e-9',
         'technique': 'exhaustive small-scope enumeration of graphs x configuration letters explored to depth 2 on the implementation against a reference '
                      'definition',
         'text': 'Every undirected graph on 2-3 (quick) / 2-4 (thorough) vertices, every rooted tree on <=4 vertices and every digraph on <=3 (thorough: 4) '
                 'vertices x 1-3 features per vertex; level 0 builds the sparse AND the dense model for every (mode, bias, n_components, dtype, feed kind) '
                 'letter and compares both with a plain-numpy definition (sum over edges / vertices of inverted block covariances scattered at their blocks), '
                 'symmetry, PSD, exact block sparsity pattern, isolated-vertex blocks, mean; level 1 runs 14 read-only queries (Mahalanobis single/batched in '
                 '6 forms, mean, PCA) on each model pair.'},
 'C13': {'design_ref': 'DESIGN.md 3/C13',
         'note': 'finite letter grids stand for the continuous bounds; resampling path at fractional centres compared on interior points only',
         'technique': 'exhaustive enumeration of a finite input/operation alphabet on the implementation against a slicing / per-pixel reference model '
                      '(explicit-state exploration, depth 1-2)',
         'text': 'Every crop box of a per-axis letter product (each side separately inside / fractional / outside; 2-D full product, 3-D reduced) x constrain '
                 'on/off on 9 image letters (3 classes, 2-D/3-D, uint8/float/bool, 1-5 channels), chained to depth 2 in thorough, is compared bit for bit with '
                 'plain slicing incl. landmarks, mask, dtype and the refusal contract; patch extraction is run on EVERY integer centre from -2 to S+1 for 6 '
                 'patch shapes x 3 offset sets x both paths against a per-pixel reference, plus fractional centres and extract/set round trips.'},
 'C14': {'design_ref': 'DESIGN.md 3/C14',
         'note': 'open findings D11 (cost formula) and D23 (start=end) matched by footprint predicates; random graphs replaced by complete small scopes plus '
                 'structured families',
         'technique': 'exhaustive small-scope enumeration of graphs x queries explored to depth 2 on the implementation against textbook reference algorithms',
         'text': 'Every undirected graph on <=4 (quick; static queries also on all n=5) / <=5 (thorough) vertices, every digraph on <=3 / <=4 vertices, every '
                 'labelled rooted tree on <=5 vertices, built from edge lists (each orientation, duplicated edge) and adjacency matrices, abstract and '
                 'point-carrying, plus structured families up to 40 vertices: every vertex mask, every root, every (start,end) pair incl. start=end. Oracle: '
                 'set-based reference graph (edges once, symmetric adjacency, neighbours/children/parents, isolated vertices, adjacency list, is_edge), '
                 'induced-subgraph masking renumbered in order (trees keep what stays connected to the root), colouring-DFS cycle test, tree test, path '
                 'validity, Floyd-Warshall distances, Kruskal weight, BFS tree relations; thorough repeats the alphabet on mask results (depth 2).'},
 'C15': {'design_ref': 'DESIGN.md 3/C15',
         'note': '[interp] a permuted with_labels request is judged on content and determinism only; thorough n=4 three-label families use 9 stated edge sets',
         'technique': 'exhaustive small-scope enumeration of labelled graphs x operations (depth 1-2) on the implementation against a set-based reference, '
                      'repeated across process hash seeds',
         'text': 'Every labelled graph on <=3 points (all 291 covering families of 1-3 overlapping label masks x every edge set, two opposite label-name '
                 'orders, 2-D and 3-D, both constructors; thorough adds n=4 families and depth 2) x every operation letter (with_labels in original and every '
                 'permuted order, without_labels, get_label, add_label with new and existing names x every index subset, remove_label, unknown labels) against '
                 'a set / ordered-list reference (exact points, induced edges, restricted masks, original label order, coverage => ValueError); all 33 '
                 'predefined labellers x every input size 1..120 x ndarray / PointCloud / labelled-graph inputs in 2-D and 3-D (exactly one accepted size, '
                 'pure re-indexing, every output point labelled, commutation with an affine and a non-linear map, input untouched); the whole enumeration is '
                 'repeated in separate interpreters with PYTHONHASHSEED 0..2 (quick) / 0..15 (thorough) and the per-case digests must be identical.'},
 'C16': {'design_ref': 'DESIGN.md 3/C16',
         'note': 'no ffmpeg: the video exporter is explored for the refusal path only; gz payloads compared after decompression (header carries an mtime)',
         'technique': 'explicit-state BFS over operation histories on the implementation, each transition checked against a reference model',
         'text': 'Export->import round trips for every object letter (LJSON for all shape classes and landmark managers with NaN patterns, '
                 'unicode/ordered/overlapping labels, empty edge sets; PTS; plain and gzipped pickles of shapes, images, transforms, PCA/GMRF models; 8-bit '
                 'and float images through PNG/BMP/TIFF/PGM/PPM) in a private temp directory, and the overwrite-protection machine: every history (depth 2 '
                 'quick / 3 thorough) of exports by every exporter x path spelling (str/Path, relative/absolute, multi-dot, other working directory) x '
                 'overwrite flag against a path->bytes model (existing and not overwrite => OverwriteError and bytes intact).'},
 'C17': {'design_ref': 'DESIGN.md 3/C17',
         'note': '[interp] an all-true mask may keep pre-existing orphan vertices; vertex normals required unit only where one exists',
         'technique': 'exhaustive small-scope enumeration of meshes x masks explored to depth 2 on the implementation against an index-free reference model',
         'text': 'Every triangle list of <=3 (quick) / <=4 (thorough) triangles on 5 generic vertices, the closed tetrahedra, the five-triangle family with an '
                 'edge used three times (sorted and rotated order), grids and Delaunay meshes, as TriMesh / ColouredTriMesh / TexturedTriMesh in 2-D and 3-D: '
                 'every vertex mask and triangle mask that keeps a whole triangle (re-masked at depth 2 in thorough), compared with an index-free reference '
                 '(coordinates of kept triangles, attributes by vertex); areas, edge lengths, normals, boundary detection and unique edges against closed-form '
                 'references under rigid-motion and scale letters.'},
 'C18': {'design_ref': 'DESIGN.md 3/C18',
         'note': 'masked normalisation is read as acting on the pixels under the mask; result/input memory sharing is noted, not failed ([interp])',
         'technique': 'exhaustive cross product of feature letters x image letters explored to depth 2 on the implementation, differential array-vs-image plus '
                      'numpy reference',
         'text': 'Every feature importable from menpo.feature (gradient, gaussian_filter, igo, double_igo, es, daisy with step/radius/ring letters, no_op, '
                 'sum_channels, the normalisers in both modes and with zero-scale handling, user features built with the exported decorators) x 52 image '
                 'letters (Image / MaskedImage all-true and sparse, 1-4 channels, float32/float64, 0-3 landmark groups, minimum-size, single-true-pixel, '
                 'constant, 3-D), depth 2 in thorough (feature of a feature image). Oracle: array call == image call bitwise, input unchanged, masked-or-not '
                 'kind kept, landmarks and mask unchanged or rescaled by the shape ratio, normaliser statistics against a numpy reference, idempotence, zero '
                 'scale refused or skipped.'},
 'C19': {'design_ref': 'DESIGN.md 3/C19',
         'note': 'lists capped at 8 elements; deeper levels use reduced slice/index alphabets; boolean index arrays excluded as in the property; the ffmpeg '
                 'process is replaced by an in-memory fake at the subprocess seam',
         'technique': 'explicit-state BFS over operation programs / read histories on the implementation, differential against a reference model',
         'text': 'Every program of LazyList operations up to the depth bound (2 quick; 3 wide + 4 narrow thorough) over 6 base configurations (raw callables '
                 'and both public constructors) is executed on the real LazyList and on a plain-list-of-expression-trees model; laziness is decided from an '
                 "evaluation log, non-mutation by re-reading every live list after every step; video-backed lazy lists (menpo's ffmpeg reader behind a fake "
                 'ffmpeg process) are explored over every sequence of reads up to depth 3/4, each read compared with an ordinary list.'},
 'C20': {'design_ref': 'DESIGN.md 3/C20',
         'note': 'continuous quantifiers decided on letter grids; open finding D4 (2-D angle sign) matched by footprint; numpy.random seeded around the 3-D '
                 'axis-angle query',
         'technique': 'explicit-state BFS over constructor/composition sequences plus exhaustive enumeration of parameter letters, compared with closed-form '
                      'references',
         'text': 'Rotation constructors are explored as a state machine (accumulated rotation, every sequence of angle letters up to depth 2/3 per axis and '
                 "unit) against Rodrigues' formula, with the reported axis/angle required to reconstruct the matrix; axis-angle and quaternion round trips on "
                 'a 29x13 axis-angle grid; about-centre transforms on 6 object letters x all transform letters with an offset alphabet; Scale factory letters; '
                 'texture-coordinate corner tables on 6 image shapes.'}}
