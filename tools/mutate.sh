#!/bin/bash
# tools/mutate.sh <patch> <Cxx> [tier] [pytest-target...]: apply a patch to a scratch copy of $VERIF_REPO_SRC (/repo),
# optionally run part of the repository's own tests there, run the check against the copy, delete the copy.
# exit 0 iff the check reported a VIOLATION (exit 1 of ./check).
set -u
PATCH="$(readlink -f "$1")"; CID="$2"; TIER="${3:-quick}"; shift 3 2>/dev/null || shift $#
SRC="${VERIF_REPO_SRC:-/repo}"
SCR="$(mktemp -d /tmp/menpo-mut-XXXXXX)"
trap 'rm -rf "$SCR"' EXIT
rsync -a --exclude .git --exclude __pycache__ --exclude .pytest_cache "$SRC"/ "$SCR"/
( cd "$SCR" && patch -p1 -s < "$PATCH" ) || { echo "PATCH-FAILED"; exit 3; }
if [ $# -gt 0 ]; then
  ( cd "$SCR" && PYTHONDONTWRITEBYTECODE=1 /venv/bin/python -m pytest -q -x -p no:cacheprovider "$@" 2>&1 | tail -3 )
fi
HERE="$(cd "$(dirname "${BASH_SOURCE[0]}")/.." && pwd)"
VERIF_REPO="$SCR" VERIF_NO_FRESH_REPLAY="${VERIF_NO_FRESH_REPLAY:-0}" "$HERE/check" "$CID" "$TIER" | sed "s#$SCR#<scratch>#g" | grep -v "^  " | head -${MUT_LINES:-8}
rc=${PIPESTATUS[0]}
echo "check-exit=$rc"
[ "$rc" = 1 ]
