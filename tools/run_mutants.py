#!/usr/bin/env python3
"""Run every mutant patch against the check(s) of its property (quick tier) and record caught / missed.
usage: tools/run_mutants.py [Cxx ...]   -> writes mutants/RESULTS.json and prints a table"""
import glob, json, os, re, subprocess, sys
HERE = os.path.dirname(os.path.dirname(os.path.abspath(__file__)))
only = set(a.upper() for a in sys.argv[1:])
known = json.load(open(os.path.join(HERE, "known_findings.json")))
rev = {}
for k in known:
    if k.get("revert_patch"):
        rev.setdefault(os.path.basename(k["revert_patch"]), []).append(k["property"])
jobs = []
for p in sorted(glob.glob(os.path.join(HERE, "mutants", "*.patch"))):
    b = os.path.basename(p)
    m = re.match(r"(C\d\d)-", b)
    props = [m.group(1)] if m else rev.get(b, [])
    for c in props:
        if only and c not in only:
            continue
        if os.path.exists(os.path.join(HERE, "mc", "checks", c.lower() + ".py")):
            jobs.append((b, c))
res_path = os.environ.get("MUT_RESULTS") or os.path.join(HERE, "mutants", "RESULTS.json")
results = json.load(open(res_path)) if os.path.exists(res_path) else {}
import concurrent.futures, threading
lock = threading.Lock()


def one(job):
    b, c = job
    env = dict(os.environ, VERIF_NO_FRESH_REPLAY="1", MUT_LINES="400")
    out = subprocess.run([os.path.join(HERE, "tools", "mutate.sh"), os.path.join(HERE, "mutants", b), c, "quick"], capture_output=True, text=True, env=env)
    caught = out.returncode == 0
    nviol = len(re.findall(r"^VIOLATION", out.stdout, flags=re.M))
    exitm = re.search(r"check-exit=(\d+)", out.stdout)
    with lock:
        results["%s@%s" % (b, c)] = {"patch": b, "property": c, "caught": caught, "violations": nviol, "check_exit": int(exitm.group(1)) if exitm else None}
        print("%-55s %s %s" % (b, c, "caught (%d)" % nviol if caught else "MISSED exit=%s" % (exitm.group(1) if exitm else "?")), flush=True)
        json.dump(results, open(res_path, "w"), indent=1, sort_keys=True)


# MUT_PAR mutants at a time (each check run uses VERIF_JOBS workers)
with concurrent.futures.ThreadPoolExecutor(int(os.environ.get("MUT_PAR", "1"))) as ex:
    list(ex.map(one, jobs))
# drop results of patches that no longer exist
live = set("%s@%s" % j for j in jobs)
if not only:
    results = {k: v for k, v in results.items() if k in live}
    json.dump(results, open(res_path, "w"), indent=1, sort_keys=True)
