#!/usr/bin/env python3
"""Regenerate MANIFEST.json from tools/manifest_data.py (claimed checks = modules present in mc/checks)."""
import json, os, sys
HERE = os.path.dirname(os.path.dirname(os.path.abspath(__file__)))
sys.path.insert(0, os.path.join(HERE, "tools"))
import manifest_data as md

COMMON_NOTE = ("; besides the letters named above the alphabet carries the letter families added during the seeded campaign "
               "(DESIGN.md 7.2): argument forms (dtypes, containers, layouts), boundary sizes and values, refused calls "
               "(exception safety, with retry), option cross products, every public route to the functionality, permuted "
               "orders, and other magnitudes (x1e-6, x1e-9, x1e6, large offsets, near-identity / near-equal operands, one "
               "large-size letter); exact roots, alphabet sizes, depth completed and the letters left out are in the "
               "evidence file (coverage, assumptions)")
checks, na = [], []
for cid in ["C%02d" % i for i in range(1, 21)]:
    have = os.path.exists(os.path.join(HERE, "mc", "checks", cid.lower() + ".py"))
    info = md.CHECKS.get(cid)
    if have and info and not info.get("na"):
        checks.append({
            "property_id": cid,
            "quick_cmd": "./check %s quick" % cid,
            "thorough_cmd": "./check %s thorough" % cid,
            "evidence_file": "/verif/evidence/%s.json" % cid,
            "replay_cmd_template": "./check %s --replay {path}" % cid,
            "engine": "mc-explorer",
            "level_claimed": {"category": "model_checking", "text": info["text"], "design_ref": info["design_ref"]},
            "level_note": info["note"] + COMMON_NOTE,
            "technique": info["technique"],
        })
    else:
        na.append({"property_id": cid, "reason": (info or {}).get("na") or "check not built yet (work in progress; see DESIGN.md section 3 for the planned exploration)"})
man = {
    "version": 1,
    "setup_cmd": "./check --selftest",
    "hooks": {
        "guard": "MENPO_VERIF",
        "enable": "no hook is needed: checks import menpo straight from $VERIF_REPO (default /repo) working tree; ./check exports MENPO_VERIF=1 for uniformity",
        "baseline_off_cmd": "cd /repo && /venv/bin/python -m pytest -ra -q -p no:cacheprovider --timeout=900 --continue-on-collection-errors",
        "source_commits": [],
        "add_only": True,
    },
    "engines": [{
        "name": "mc-explorer",
        "path": "/verif/mc/core.py",
        "serves_properties": [c["property_id"] for c in checks],
        "kind_free_text": "hand-written explicit-state breadth-first explorer over the real menpo code: states are histories replayed on fresh objects, deduplicated by a canonical key, each transition checked against a plain-Python reference model",
    }],
    "checks": checks,
    "not_applicable": na,
    "notes": md.NOTES,
}
json.dump(man, open(os.path.join(HERE, "MANIFEST.json"), "w"), indent=1)
print("claimed:", [c["property_id"] for c in checks])
