#!/bin/bash
# tools/seeded_eval.sh <worktree> <Cxx> <name> [tier]
# Confirms a seeded property-breaking change produced in a scratch worktree and runs the check against it:
#  1. demo.py exits 1 with the change and 0 without it
#  2. the repository's own suite has no stable-pass test failing with the change
#  3. ./check <Cxx> <tier> against the changed worktree (VERIF_REPO) must report VIOLATION
# and stores patch.diff / demo.py / meta.json under /verif/seeded/<name>/.
set -u
WT="$1"; CID="$2"; NAME="$3"; TIER="${4:-quick}"
HERE="$(cd "$(dirname "${BASH_SOURCE[0]}")/.." && pwd)"
cd "$WT" || exit 3
[ -s seeded.diff ] || git diff > seeded.diff
run_demo(){ PYTHONPATH="$WT" PYTHONDONTWRITEBYTECODE=1 timeout 600 /venv/bin/python demo.py > /tmp/demo.$$.out 2>&1; echo $?; }
git apply -R seeded.diff 2>/dev/null || git checkout -- menpo
D0=$(run_demo)
git apply seeded.diff || { echo "cannot re-apply seeded.diff"; exit 3; }
D1=$(run_demo); DEMO_OUT="$(tail -5 /tmp/demo.$$.out)"; rm -f /tmp/demo.$$.out
echo "demo: without change exit=$D0, with change exit=$D1"
SUITE="$("$HERE/tools/baseline_compare.sh" "$WT" 2>&1)"
echo "$SUITE" | head -4
REG=$(echo "$SUITE" | sed -n 's/^stable_pass now not passing: //p')
OUT="$(VERIF_REPO="$WT" VERIF_JOBS="${VERIF_JOBS:-8}" "$HERE/check" "$CID" "$TIER" 2>&1)"; RC=$?
echo "$OUT" | grep -E "^(VIOLATION|KNOWN|C[0-9]+ |VACUOUS|HARNESS|NONDET)" | head -8
echo "$OUT" | grep -A2 "^VIOLATION" | grep signature | head -5
echo "check-exit=$RC"
DEST="$HERE/seeded/$NAME"; mkdir -p "$DEST"
cp seeded.diff "$DEST/patch.diff"; cp demo.py "$DEST/demo.py"; [ -f meta.txt ] && cp meta.txt "$DEST/agent_notes.txt"
python3 - "$DEST" "$CID" "$NAME" "$D0" "$D1" "${REG:-?}" "$RC" "$TIER" <<P
import json,sys,subprocess
dest,cid,name,d0,d1,reg,rc,tier=sys.argv[1:9]
sigs=[l.strip() for l in """$OUT""".splitlines() if l.strip().startswith("signature=")]
notes=open(dest+"/agent_notes.txt").read() if __import__("os").path.exists(dest+"/agent_notes.txt") else ""
json.dump({"property":cid,"name":name,
 "needs_to_manifest":notes.strip()[:1500],
 "demo_exit_without_change":int(d0),"demo_exit_with_change":int(d1),
 "suite_stable_pass_tests_failing_with_change":reg,
 "ran":["demo.py with and without the change","tools/baseline_compare.sh <worktree> (full pytest suite vs BASELINE.json stable_pass)","VERIF_REPO=<worktree> ./check %s %s"%(cid,tier)],
 "check_exit":int(rc),"detected":int(rc)==1,"signatures":sigs[:8],
 "base_commit":subprocess.check_output(["git","-C","/repo","rev-parse","--short","HEAD"],text=True).strip()},
 open(dest+"/meta.json","w"),indent=1)
P
[ "$D0" = 0 ] && [ "$D1" != 0 ] && [ "$REG" = 0 ] && echo "CONFIRMED seeded change" || echo "NOT CONFIRMED (demo/suite conditions not met)"
