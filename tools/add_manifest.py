#!/usr/bin/env python3
"""tools/add_manifest.py Cxx "<text>" "<note>" "<technique>"  - add/replace an entry in tools/manifest_data.py and regenerate"""
import sys, os, subprocess, pprint
HERE = os.path.dirname(os.path.dirname(os.path.abspath(__file__)))
sys.path.insert(0, os.path.join(HERE, "tools"))
import manifest_data as md
cid, text, note, tech = sys.argv[1:5]
md.CHECKS[cid] = {"text": text, "design_ref": "DESIGN.md 3/%s" % cid, "note": note, "technique": tech}
with open(os.path.join(HERE, "tools", "manifest_data.py"), "w") as fh:
    fh.write("NOTES = %r\n" % md.NOTES)
    fh.write("CHECKS = " + pprint.pformat(dict(sorted(md.CHECKS.items())), width=160) + "\n")
subprocess.check_call([sys.executable, os.path.join(HERE, "tools", "gen_manifest.py")])
